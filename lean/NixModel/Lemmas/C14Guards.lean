import NixModel.Pure.Validator
import NixModel.Generated.ValidatorGuards
import NixModel.Lemmas.C14Checks
import NixModel.Lemmas.C14Tags

/-!
# C14 — the compiled guards of `validator.py` compute the branches of the model

`Generated/ValidatorGuards.lean` holds the conditions of every report site, compiled from the source into
`PyGuard.Expr`.  Here: for each check function an *environment* (what each read returns for the object under check,
as a Python value) and the proof that evaluating the compiled conditions under Python's truthiness rules yields
exactly the message list of the hand-written model — for all values, the boundary ones included (a date at the
epoch, the strings `"0"` / `" "`, a position `(0.0,)`, an interval `0.0` …).
-/
namespace Nix.Validator.Lemmas
open Nix.Validator Nix.Validator.Gen Nix.PyGuard
open Nix.Units (Str isSi isAtomic)

/-! ## generic facts about `fires` / `fired` -/

theorem ok_bind {α β : Type} (a : α) (f : α → Except Err β) : (Except.ok a >>= f) = f a := rfl
theorem ok_map {α β : Type} (a : α) (f : α → β) : (f <$> (Except.ok a : Except Err α)) = Except.ok (f a) := rfl
theorem pure_ok {α : Type} (a : α) : (pure a : Except Err α) = Except.ok a := rfl

theorem eval_not_ok {ρ : Type} (env : ρ → Val) (bv : Val) (e : Expr ρ) (v : Val) (h : eval env bv e = .ok v) :
    eval env bv (.not e) = .ok (.bool (!truthy v)) := by
  simp [eval, h, ok_bind, pure_ok]

theorem fires_one {ρ : Type} (env : ρ → Val) (c : Expr ρ) (v : Val) (h : eval env .none c = .ok v) :
    fires env [c] = .ok (truthy v) := by
  simp only [fires, h]
  cases truthy v <;> rfl

theorem fires_two {ρ : Type} (env : ρ → Val) (c d : Expr ρ) (v w : Val) (h : eval env .none c = .ok v)
    (h2 : truthy v = true → eval env .none d = .ok w) :
    fires env [c, d] = .ok (truthy v && truthy w) := by
  simp only [fires, h]
  cases hv : truthy v
  · rfl
  · simp only [h2 hv, if_true, Bool.true_and]
    cases truthy w <;> rfl

theorem fired_cons {ρ ι : Type} (env : ρ → Val) (m : ι) (cs : List (Expr ρ)) (rest : List (ι × List (Expr ρ)))
    (b : Bool) (more : List ι) (h1 : fires env cs = .ok b) (h2 : fired env rest = .ok more) :
    fired env ((m, cs) :: rest) = .ok (if b then m :: more else more) := by
  simp only [fired, h1, h2]

theorem fired_nil {ρ ι : Type} (env : ρ → Val) : fired env ([] : List (ι × List (Expr ρ))) = .ok [] := rfl

theorem truthy_bool (b : Bool) : truthy (.bool b) = b := rfl

theorem truthy_ofOptStr (o : Option Str) : truthy (ofOptStr o) = !falsy o := by
  cases o <;> simp [ofOptStr, truthy, falsy]

theorem isNone_ofOptInt (o : Option Int) : (ofOptInt o == Val.none) = o.isNone := by
  cases o <;> simp [ofOptInt]

/-! ## check_entity, check_file, check_property -/

def entEnv (e : Ent) : Read → Val
  | .entity_type => ofOptStr e.type_
  | .entity_id => ofOptStr e.id
  | .entity_name => ofOptStr e.name
  | .entity_created_at => ofOptInt e.createdAt
  | _ => .none

theorem guards_entity (e : Ent) :
    (fired (entEnv e) guards_check_entity).map (List.map Msg.plain) = .ok (checkEntity e) := by
  have h1 := fires_one (entEnv e) (.not (.read .entity_type)) _ rfl
  have h2 := fires_one (entEnv e) (.not (.read .entity_id)) _ rfl
  have h3 := fires_one (entEnv e) (.not (.read .entity_name)) _ rfl
  have h4 := fires_one (entEnv e) (.isNone (.read .entity_created_at)) _ rfl
  rw [guards_check_entity,
    fired_cons _ _ _ _ _ _ h1 (fired_cons _ _ _ _ _ _ h2 (fired_cons _ _ _ _ _ _ h3 (fired_cons _ _ _ _ _ _ h4 (fired_nil _))))]
  simp only [entEnv, truthy_bool, truthy_ofOptStr, isNone_ofOptInt, Bool.not_not, Except.map, checkEntity]
  cases falsy e.type_ <;> cases falsy e.id <;> cases falsy e.name <;> cases e.createdAt.isNone <;> rfl

def fileEnv (f : File) : Read → Val
  | .file_created_at => ofOptInt f.createdAt
  | _ => .none

theorem guards_file (f : File) :
    (fired (fileEnv f) guards_check_file).map (List.map Msg.plain) = .ok (checkFileObj f) := by
  have h1 := fires_one (fileEnv f) (.isNone (.read .file_created_at)) _ rfl
  rw [guards_check_file, fired_cons _ _ _ _ _ _ h1 (fired_nil _)]
  simp only [fileEnv, truthy_bool, isNone_ofOptInt, Except.map, checkFileObj]
  cases f.createdAt.isNone <;> rfl

def propEnv (p : Property) : Read → Val
  | .prop_id => ofOptStr p.id
  | .prop_name => ofOptStr p.name
  | _ => .none

theorem guards_property (p : Property) (i : Nat) :
    (fired (propEnv p) guards_check_property).map (List.map (Msg.property i)) = .ok (checkProperty p i) := by
  have h1 := fires_one (propEnv p) (.not (.read .prop_id)) _ rfl
  have h2 := fires_one (propEnv p) (.not (.read .prop_name)) _ rfl
  rw [guards_check_property, fired_cons _ _ _ _ _ _ h1 (fired_cons _ _ _ _ _ _ h2 (fired_nil _))]
  simp only [propEnv, truthy_bool, truthy_ofOptStr, Bool.not_not, Except.map, checkProperty]
  cases falsy p.id <;> cases falsy p.name <;> rfl

/-! ## check_feature -/

/-- `n` = `len(feat.data)`; `feat.link_type` is an enum member (reading it raises unless the stored text is one) -/
def featEnv (ft : Feature) (n : Nat) : Read → Val
  | .feat_id => ofOptStr ft.id
  | .feat_created_at => ofOptInt ft.createdAt
  | .feat_data => .sized n
  | .feat_link_type => .enum "LinkType"
  | _ => .none

/-- for a feature whose reads do not raise (data linked, link type a member of `LinkType`) -/
theorem guards_feature (arrays : List DataArray) (ft : Feature) (i n : Nat) (da : DataArray)
    (hd : ft.data.bind (fun k => arrays[k]?) = some da) (hn : firstLen da.shape = some n)
    (hl : linkTypeOk ft.linkType = true) :
    (fired (featEnv ft n) guards_check_feature).map (List.map (Msg.feature i)) = .ok (checkFeature arrays ft i) := by
  have h1 := fires_one (featEnv ft n) (.not (.read .feat_id)) _ rfl
  have h2 := fires_one (featEnv ft n) (.isNone (.read .feat_created_at)) _ rfl
  have h3 := fires_one (featEnv ft n) (.not (.read .feat_data)) _ rfl
  have h4 := fires_one (featEnv ft n) (.not (.read .feat_link_type)) _ rfl
  rw [guards_check_feature,
    fired_cons _ _ _ _ _ _ h1 (fired_cons _ _ _ _ _ _ h2 (fired_cons _ _ _ _ _ _ h3 (fired_cons _ _ _ _ _ _ h4 (fired_nil _))))]
  have hs : truthy (.sized n) = (n != 0) := rfl
  have he : truthy (.enum "LinkType") = true := rfl
  simp only [featEnv, truthy_bool, truthy_ofOptStr, isNone_ofOptInt, Bool.not_not, Except.map, checkFeature, hd, hn,
    hl, hs, he]
  cases falsy ft.id <;> cases ft.createdAt.isNone <;> by_cases h0 : n = 0 <;> simp [h0]

/-! ## check_range_dimension -/

theorem allM_ok {α : Type} (p : α → Bool) (l : List α) :
    allM (l.map fun x => (Except.ok (p x) : Except Err Bool)) = .ok (l.all p) := by
  induction l with
  | nil => rfl
  | cons x xs ih =>
    simp only [List.map_cons, allM, List.all_cons, bind, Except.bind]
    cases p x <;> simp [ih, pure, Except.pure]

theorem adjPairs_map {α β : Type} (f : α → β) (l : List α) :
    adjPairs (l.map f) = (adjPairs l).map (fun p => (f p.1, f p.2)) := by
  simp only [adjPairs, ← List.map_dropLast, ← List.map_tail, List.zip_map]
  rfl

theorem compare_lt_rat (x y : Rat) : compare .lt (.rat x) (.rat y) = .ok (decide (x < y)) := rfl

/-- `all(ti < tj for ti, tj in zip(ticks[:-1], ticks[1:]))` is the model's `ticksSorted` -/
theorem eval_adjacent_lt {ρ : Type} (env : ρ → Val) (bv : Val) (r : ρ) (l : List Rat) (h : env r = .rats l) :
    eval env bv (.adjacent .all .lt (.read r)) = .ok (.bool (ticksSorted l)) := by
  simp only [eval, h, bind, Except.bind, itemsOf, adjPairs_map, List.map_map, pure, Except.pure]
  have : ((fun p : Val × Val => compare Cmp.lt p.1 p.2) ∘ fun p : Rat × Rat => (Val.rat p.1, Val.rat p.2))
      = fun p : Rat × Rat => (Except.ok (decide (p.1 < p.2)) : Except Err Bool) := by
    funext p; rfl
  rw [this, allM_ok]
  rfl

def rangeEnv (d : Dim) : Read → Val
  | .dim_ticks => .rats d.ticks
  | .dim_unit => ofOptStr d.unit
  | _ => .none

theorem truthy_rats (l : List Rat) : truthy (.rats l) = !l.isEmpty := rfl

theorem eval_badUnit {ρ : Type} (env : ρ → Val) (r : ρ) (u : Option Str) (h : env r = ofOptStr u) :
    ∃ v, eval env .none (.and (.read r) (.not (.call .isAtomic (.read r)))) = .ok v ∧ truthy v = badDimUnit u := by
  cases u with
  | none => exact ⟨.none, by simp [eval, h, ofOptStr, truthy, ok_bind, pure_ok], by simp [truthy, badDimUnit, falsy]⟩
  | some s =>
    by_cases hs : s.isEmpty = true
    · exact ⟨.str s, by simp [eval, h, ofOptStr, truthy, hs, ok_bind, pure_ok], by simp [truthy, badDimUnit, falsy, hs]⟩
    · refine ⟨.bool (!isAtomic s), ?_, by simp [truthy, badDimUnit, falsy, hs]⟩
      simp [eval, h, ofOptStr, truthy, hs, callPrim, ok_bind, ok_map, pure_ok]

theorem guards_range (d : Dim) (idx : Nat) :
    (fired (rangeEnv d) guards_check_range_dimension).map (List.map (Msg.dim · idx)) = .ok (checkRangeDim d idx) := by
  have h1 := fires_one (rangeEnv d) (.not (.read .dim_ticks)) _ rfl
  have h2 := fires_two (rangeEnv d) (.not (.not (.read .dim_ticks))) (.not (.adjacent .all .lt (.read .dim_ticks)))
    _ (.bool (!ticksSorted d.ticks)) rfl
    (fun _ => eval_not_ok _ _ _ _ (eval_adjacent_lt (rangeEnv d) .none .dim_ticks d.ticks rfl))
  obtain ⟨v, hv, htv⟩ := eval_badUnit (rangeEnv d) .dim_unit d.unit rfl
  have h3 := fires_one (rangeEnv d) _ v hv
  rw [guards_check_range_dimension,
    fired_cons _ _ _ _ _ _ h1 (fired_cons _ _ _ _ _ _ h2 (fired_cons _ _ _ _ _ _ h3 (fired_nil _)))]
  simp only [rangeEnv, truthy_bool, truthy_rats, Bool.not_not, htv, Except.map, checkRangeDim]
  cases d.ticks.isEmpty <;> cases ticksSorted d.ticks <;> cases badDimUnit d.unit <;> rfl

/-! ## check_sampled_dimension -/

def sampledEnv (d : Dim) : Read → Val
  | .dim_sampling_interval => ofOptRat d.interval
  | .dim_unit => ofOptStr d.unit
  | _ => .none

theorem fires_unit2 {ρ : Type} (env : ρ → Val) (r : ρ) (u : Option Str) (h : env r = ofOptStr u) :
    fires env [.read r, .not (.call .isAtomic (.read r))] = .ok (badDimUnit u) := by
  cases u with
  | none => simp [fires, eval, h, ofOptStr, truthy, badDimUnit, falsy]
  | some s =>
    by_cases hs : s.isEmpty = true
    · simp [fires, eval, h, ofOptStr, truthy, badDimUnit, falsy, hs]
    · simp [fires, eval, h, ofOptStr, truthy, badDimUnit, falsy, hs, callPrim, ok_bind, pure_ok]
      cases isAtomic s <;> rfl

/-- `interval < 0` for a stored interval -/
def negInterval : Option Rat → Bool
  | some x => decide (x < 0)
  | none => false

theorem fires_interval_neg {ρ : Type} (env : ρ → Val) (r : ρ) (o : Option Rat) (h : env r = ofOptRat o) :
    fires env [.not (.not (.read r)), .cmp .lt (.read r) (.intLit 0)] =
      .ok (negInterval o) := by
  cases o with
  | none => simp [fires, eval, h, ofOptRat, truthy, ok_bind, pure_ok, negInterval]
  | some x =>
    by_cases h0 : x = 0
    · subst h0
      simp [fires, eval, h, ofOptRat, truthy, ok_bind, pure_ok, negInterval]
    · have hc : PyGuard.compare .lt (.rat x) (.int 0) = .ok (decide (x < 0)) := by
        simp [PyGuard.compare, num?, cmpRat]
      simp [fires, eval, h, ofOptRat, truthy, ok_bind, pure_ok, h0, hc, negInterval]
      by_cases hlt : x < 0 <;> simp [hlt]

theorem guards_sampled (d : Dim) (idx : Nat) :
    (fired (sampledEnv d) guards_check_sampled_dimension).map (List.map (Msg.dim · idx)) =
      .ok (checkSampledDim d idx) := by
  have h1 := fires_one (sampledEnv d) (.not (.read .dim_sampling_interval)) _ rfl
  have h2 := fires_interval_neg (sampledEnv d) .dim_sampling_interval d.interval rfl
  have h3 := fires_unit2 (sampledEnv d) .dim_unit d.unit rfl
  rw [guards_check_sampled_dimension,
    fired_cons _ _ _ _ _ _ h1 (fired_cons _ _ _ _ _ _ h2 (fired_cons _ _ _ _ _ _ h3 (fired_nil _)))]
  have hb : badDimUnit d.unit = true → falsy d.unit = false := by
    intro h
    simp only [badDimUnit, Bool.and_eq_true, Bool.not_eq_true'] at h
    exact h.1
  simp only [sampledEnv, truthy_bool, Except.map, checkSampledDim]
  clear h1 h2 h3
  rcases d with ⟨kind, index, ticks, nLabels, interval, unit⟩
  dsimp only at hb ⊢
  cases interval with
  | none =>
    cases hu : badDimUnit unit
    · cases falsy unit <;> simp [ofOptRat, truthy, noInterval, negInterval]
    · simp [ofOptRat, truthy, noInterval, negInterval, hb hu]
  | some x =>
    by_cases h0 : x = 0
    · subst h0
      cases hu : badDimUnit unit
      · cases falsy unit <;> simp [ofOptRat, truthy, noInterval, negInterval]
      · simp [ofOptRat, truthy, noInterval, negInterval, hb hu]
    · by_cases hlt : x < 0
      · cases hu : badDimUnit unit
        · cases falsy unit <;> simp [ofOptRat, truthy, noInterval, negInterval, h0, hlt]
        · simp [ofOptRat, truthy, noInterval, negInterval, h0, hlt, hb hu]
      · cases hu : badDimUnit unit
        · cases falsy unit <;> simp [ofOptRat, truthy, noInterval, negInterval, h0, hlt]
        · simp [ofOptRat, truthy, noInterval, negInterval, h0, hlt, hb hu]

/-! ## check_data_array: the two array-level sites and the loop body -/

theorem compare_ne_int (x y : Int) : PyGuard.compare .ne (.int x) (.int y) = .ok (x != y) := rfl
theorem compare_le_int (x y : Int) : PyGuard.compare .le (.int x) (.int y) = .ok (decide (x ≤ y)) := rfl
theorem compare_eq_enum (a b : String) : PyGuard.compare .eq (.enum a) (.enum b) = .ok (a == b) := by
  simp [PyGuard.compare, valEq, num?]
theorem natCast_bne (x y : Nat) : ((x : Int) != (y : Int)) = (x != y) := by
  by_cases h : x = y
  · subst h; simp
  · have h2 : (x : Int) ≠ (y : Int) := by omega
    have e1 : ((x : Int) != (y : Int)) = true := by simpa using h2
    have e2 : (x != y) = true := by simpa using h
    rw [e1, e2]


def kindName : DimKind → String
  | .range => "DimensionType.Range"
  | .sample => "DimensionType.Sample"
  | .set => "DimensionType.Set"

/-- reads of `check_data_array` for array `da`, inside the loop: descriptor `d` (its labels: `labels`), data length
`n`, position `idx` -/
def dimEnv (da : DataArray) (d : Dim) (labels : List Str) (n idx : Nat) : Read → Val
  | .da_data_type => ofOptStr da.dataType
  | .da_dimensions => .sized da.dims.length
  | .da_shape => .ints (da.shape.map Int.ofNat)
  | .dim_index => .int d.index
  | .idx => .int idx
  | .dim_dimension_type => .enum (kindName d.kind)
  | .dim_ticks => .rats d.ticks
  | .datalen => .int n
  | .dim_labels => .strs labels
  | _ => .none

/-- how the loop body renders an identifier -/
def renderDim (idx : Nat) (v : Int) : MsgId → Msg
  | .IncorrectDimensionIndex => .dim2 .IncorrectDimensionIndex idx v
  | k => .dim k idx

theorem guards_array_head (da : DataArray) (d : Dim) (labels : List Str) (n idx : Nat) :
    (fired (dimEnv da d labels n idx) (guards_check_data_array.take 2)).map (List.map Msg.plain) =
      .ok ((if falsy da.dataType then [.plain .NoDataType] else []) ++
           (if da.dims.length != da.shape.length then [.plain .DimensionMismatch] else [])) := by
  have h1 := fires_one (dimEnv da d labels n idx) (.not (.read .da_data_type)) _ rfl
  have h2 : fires (dimEnv da d labels n idx) [.cmp .ne (.len (.read .da_dimensions)) (.len (.read .da_shape))] =
      .ok (da.dims.length != da.shape.length) := by
    simp only [fires, eval, dimEnv, lenOf, ok_bind, pure_ok, compare_ne_int, natCast_bne, List.length_map, truthy_bool]
    cases (da.dims.length != da.shape.length) <;> rfl
  rw [guards_check_data_array]
  simp only [List.take]
  rw [fired_cons _ _ _ _ _ _ h1 (fired_cons _ _ _ _ _ _ h2 (fired_nil _))]
  simp only [dimEnv, truthy_bool, truthy_ofOptStr, Bool.not_not, Except.map]
  cases falsy da.dataType <;> cases (da.dims.length != da.shape.length) <;> rfl


/-- the loop body: the identifiers of the four compiled sites that fire, rendered, followed by the messages of the
dimension's own check function, are exactly `dimMsgs` -/
theorem guards_dim_loop (da : DataArray) (d : Dim) (labels : List Str) (n idx : Nat) (hl : labels.length = d.nLabels) :
    ∃ ids, fired (dimEnv da d labels n idx) (guards_check_data_array.drop 2) = .ok ids ∧
      dimMsgs idx d n = ids.map (renderDim idx d.index) ++
        (match d.kind with
         | .range => checkRangeDim d idx
         | .sample => checkSampledDim d idx
         | .set => []) := by
  have hidx1 : fires (dimEnv da d labels n idx)
      [.or (.not (.read .dim_index)) (.cmp .le (.read .dim_index) (.intLit 0))] =
      .ok (d.index == 0 || decide (d.index ≤ 0)) := by
    by_cases h0 : d.index = 0
    · simp [fires, eval, dimEnv, truthy, ok_bind, pure_ok, h0]
    · by_cases h : d.index ≤ 0 <;>
        simp [fires, eval, dimEnv, truthy, ok_bind, pure_ok, h0, compare_le_int, h]
  have hidx2 : fires (dimEnv da d labels n idx)
      [.not (.or (.not (.read .dim_index)) (.cmp .le (.read .dim_index) (.intLit 0))),
       .cmp .ne (.read .dim_index) (.read .idx)] =
      .ok (!(d.index == 0 || decide (d.index ≤ 0)) && d.index != (idx : Int)) := by
    by_cases h0 : d.index = 0
    · simp [fires, eval, dimEnv, truthy, ok_bind, pure_ok, h0]
    · by_cases h : d.index ≤ 0
      · simp [fires, eval, dimEnv, truthy, ok_bind, pure_ok, h0, compare_le_int, h]
      · cases e : (d.index != (idx : Int)) <;>
          simp [fires, eval, dimEnv, truthy, ok_bind, pure_ok, h0, compare_le_int, compare_ne_int, h, e]
  have hticks : fires (dimEnv da d labels n idx)
      [.cmp .eq (.read .dim_dimension_type) (.enumLit "DimensionType.Range"),
       .and (.isNotNone (.read .dim_ticks)) (.cmp .ne (.len (.read .dim_ticks)) (.read .datalen))] =
      .ok (decide (d.kind = .range) && d.ticks.length != n) := by
    by_cases h : d.ticks.length = n <;> cases hk : d.kind <;>
      simp [fires, eval, dimEnv, truthy, ok_bind, pure_ok, compare_eq_enum, compare_ne_int, natCast_bne, kindName, hk,
        lenOf, h]
  have hlabels : fires (dimEnv da d labels n idx)
      [.not (.cmp .eq (.read .dim_dimension_type) (.enumLit "DimensionType.Range")),
       .not (.cmp .eq (.read .dim_dimension_type) (.enumLit "DimensionType.Sample")),
       .cmp .eq (.read .dim_dimension_type) (.enumLit "DimensionType.Set"),
       .and (.read .dim_labels) (.cmp .ne (.len (.read .dim_labels)) (.read .datalen))] =
      .ok (decide (d.kind = .set) && (d.nLabels != 0 && d.nLabels != n)) := by
    by_cases h0 : labels = []
    · have h00 : d.nLabels = 0 := by rw [← hl, h0]; rfl
      cases hk : d.kind <;>
        simp [fires, eval, dimEnv, truthy, ok_bind, pure_ok, compare_eq_enum, kindName, hk, h0, h00]
    · have hne : d.nLabels ≠ 0 := by
        rw [← hl]; intro h; exact h0 (List.length_eq_zero_iff.mp h)
      by_cases h : d.nLabels = n <;> cases hk : d.kind <;>
        simp [fires, eval, dimEnv, truthy, ok_bind, pure_ok, compare_eq_enum, compare_ne_int, natCast_bne, kindName,
          hk, lenOf, h0, hne, hl, h]
  have hf := fired_cons _ MsgId.InvalidDimensionIndex _ _ _ _ hidx1 (fired_cons _ MsgId.IncorrectDimensionIndex _ _ _ _ hidx2
    (fired_cons _ MsgId.RangeDimTicksMismatch _ _ _ _ hticks (fired_cons _ MsgId.SetDimLabelsMismatch _ _ _ _ hlabels (fired_nil _))))
  refine ⟨_, hf, ?_⟩
  · unfold dimMsgs
    by_cases hi : (d.index == 0 || decide (d.index ≤ 0)) = true
    · cases hk : d.kind
      · by_cases ht : d.ticks.length = n <;> simp [hi, hk, ht, renderDim]
      · simp [hi, hk, renderDim]
      · by_cases hlb : (d.nLabels != 0 && d.nLabels != n) = true <;> simp [hi, hk, hlb, renderDim]
    · by_cases hi2 : (d.index != (idx : Int)) = true
      · cases hk : d.kind
        · by_cases ht : d.ticks.length = n <;> simp [hi, hi2, hk, ht, renderDim]
        · simp [hi, hi2, hk, renderDim]
        · by_cases hlb : (d.nLabels != 0 && d.nLabels != n) = true <;> simp [hi, hi2, hk, hlb, renderDim]
      · cases hk : d.kind
        · by_cases ht : d.ticks.length = n <;> simp [hi, hi2, hk, ht, renderDim]
        · simp [hi, hi2, hk, renderDim]
        · by_cases hlb : (d.nLabels != 0 && d.nLabels != n) = true <;> simp [hi, hi2, hk, hlb, renderDim]

/-! ## generators -/

theorem anyM_congr {α : Type} (g : α → Except Err Bool) (p : α → Bool) (l : List α)
    (h : ∀ x ∈ l, g x = .ok (p x)) : anyM (l.map g) = .ok (l.any p) := by
  induction l with
  | nil => rfl
  | cons x xs ih =>
    have hx := h x (List.mem_cons_self ..)
    have hxs := ih (fun y hy => h y (List.mem_cons_of_mem _ hy))
    simp only [List.map_cons, anyM, hx, ok_bind, List.any_cons]
    cases p x <;> simp [hxs, pure_ok]

theorem eval_anyIn_none {ρ : Type} (env : ρ → Val) (bv : Val) (src body : Expr ρ) (v : Val) (items : List Val)
    (p : Val → Bool) (hs : eval env bv src = .ok v) (hi : itemsOf v = .ok items)
    (hb : ∀ it ∈ items, ∃ w, eval env it body = .ok w ∧ truthy w = p it) :
    eval env bv (.anyIn src none body) = .ok (.bool (items.any p)) := by
  simp only [eval, hs, hi, ok_bind, pure_ok]
  rw [anyM_congr _ p]
  · rfl
  · intro it hit
    obtain ⟨w, hw, hp⟩ := hb it hit
    simp [hw, hp, ok_bind, pure_ok]

theorem eval_anyIn_some {ρ : Type} (env : ρ → Val) (bv : Val) (src c body : Expr ρ) (v : Val) (items : List Val)
    (p : Val → Bool) (hs : eval env bv src = .ok v) (hi : itemsOf v = .ok items)
    (hb : ∀ it ∈ items, ∃ wc, eval env it c = .ok wc ∧
      ((truthy wc = false ∧ p it = false) ∨ (truthy wc = true ∧ ∃ w, eval env it body = .ok w ∧ truthy w = p it))) :
    eval env bv (.anyIn src (some c) body) = .ok (.bool (items.any p)) := by
  simp only [eval, hs, hi, ok_bind, pure_ok]
  rw [anyM_congr _ p]
  · rfl
  · intro it hit
    obtain ⟨wc, hwc, h⟩ := hb it hit
    rcases h with ⟨hf, hp⟩ | ⟨ht, w, hw, hp⟩
    · simp [hwc, hf, hp, ok_bind, pure_ok]
    · simp [hwc, ht, hw, hp, ok_bind, pure_ok]

/-! ## check_tag -/

/-- reads of `check_tag`: `position` / `extent` are the stored tuples (the description keeps their lengths only) -/
def tagEnv (position extent : List Rat) (units : List Str) (nrefs : Nat) (refs : List DataArray) : Read → Val
  | .tag_position => .rats position
  | .tag_extent => .rats extent
  | .tag_references => .sized nrefs
  | .tag_references___shape => .intss (refs.map fun da => da.shape.map Int.ofNat)
  | .posdim => .int position.length
  | .extlen => .int extent.length
  | .refs_units => .strss (refs.map getDimUnits)
  | .tag_units => .strs units
  | _ => .none

theorem fires_three {ρ : Type} (env : ρ → Val) (c d e : Expr ρ) (v w x : Val) (h : eval env .none c = .ok v)
    (h2 : truthy v = true → eval env .none d = .ok w)
    (h3 : truthy v = true → truthy w = true → eval env .none e = .ok x) :
    fires env [c, d, e] = .ok (truthy v && (truthy w && truthy x)) := by
  simp only [fires, h]
  cases hv : truthy v
  · rfl
  · simp only [h2 hv, if_true, Bool.true_and]
    cases hw : truthy w
    · rfl
    · simp only [h3 hv hw, if_true, Bool.true_and]
      cases truthy x <;> rfl

/-- `any(p != len(shape) for shape in shapes)`: `rp` reads the int `p`, `rs` the shapes of the referenced arrays -/
theorem eval_rankMismatch {ρ : Type} (env : ρ → Val) (bv : Val) (rs rp : ρ) (p : Nat) (refs : List DataArray)
    (h1 : env rs = .intss (refs.map fun da => da.shape.map Int.ofNat)) (h2 : env rp = .int p) :
    eval env bv (.anyIn (.read rs) none (.cmp .ne (.read rp) (.len .bound))) =
      .ok (.bool (refs.any fun da => p != da.shape.length)) := by
  have := eval_anyIn_none env bv (.read rs) (.cmp .ne (.read rp) (.len .bound))
    (.intss (refs.map fun da => da.shape.map Int.ofNat)) ((refs.map fun da => da.shape.map Int.ofNat).map .ints)
    (fun it => match it with | .ints x => p != x.length | _ => false) (by simp [eval, h1]) rfl
    (by
      intro it hit
      obtain ⟨x, -, rfl⟩ := List.mem_map.mp hit
      refine ⟨.bool (p != x.length), ?_, rfl⟩
      simp [eval, h2, lenOf, ok_bind, pure_ok, compare_ne_int, natCast_bne])
  rw [this, List.any_map, List.any_map]
  have : (((fun it => match it with | Val.ints x => p != x.length | _ => false) ∘ Val.ints) ∘
      fun da : DataArray => da.shape.map Int.ofNat) = fun da => p != da.shape.length := by
    funext da
    simp
  rw [this]

theorem pairPasses_units (p : Str × Str) :
    pairPasses [.and (.eq .fst (.strLit "")) (.eq .snd (.strLit ""))] (.not (.scalable .fst .snd)) p =
      .ok (unitPairOk p) := by
  obtain ⟨a, b⟩ := p
  have e : "".toList = ([] : List Char) := rfl
  cases a <;> cases b <;> simp [pairPasses, PairExpr.holds, PairExpr.eval, unitPairOk, e, sumEq]

/-- the inlined verdict helper `tag_units_match_refs_units(units, refs_units)` is the model's `unitsMatch` -/
theorem eval_unitsMatch {ρ : Type} (env : ρ → Val) (bv : Val) (ru rr : ρ) (units : List Str) (L : List (List Str))
    (h1 : env ru = .strs units) (h2 : env rr = .strss L) :
    eval env bv (.matchAll [.and (.eq .fst (.strLit "")) (.eq .snd (.strLit ""))] (.not (.scalable .fst .snd))
      (.read ru) (.read rr)) = .ok (.bool (unitsMatch units L)) := by
  have hin : ∀ r : List Str, allM ((units.zip r).map (pairPasses [.and (.eq .fst (.strLit "")) (.eq .snd (.strLit ""))]
      (.not (.scalable .fst .snd)))) = .ok ((units.zip r).all unitPairOk) := by
    intro r
    have : (pairPasses [.and (.eq .fst (.strLit "")) (.eq .snd (.strLit ""))] (.not (.scalable .fst .snd))) =
        fun p => (Except.ok (unitPairOk p) : Except Err Bool) := funext pairPasses_units
    rw [this, allM_ok]
  simp only [eval, h1, h2, ok_bind, pure_ok]
  have : (fun r : List Str => allM ((units.zip r).map (pairPasses [.and (.eq .fst (.strLit "")) (.eq .snd (.strLit ""))]
      (.not (.scalable .fst .snd))))) = fun r => (Except.ok ((units.zip r).all unitPairOk) : Except Err Bool) :=
    funext hin
  rw [this, allM_ok]
  rfl

theorem chain7 {α : Type} (b1 b2 b3 b4 b5 b6 b7 : Bool) (m1 m2 m3 m4 m5 m6 m7 : α) :
    (let x7 := if b7 then [m7] else []
     let x6 := if b6 then m6 :: x7 else x7
     let x5 := if b5 then m5 :: x6 else x6
     let x4 := if b4 then m4 :: x5 else x5
     let x3 := if b3 then m3 :: x4 else x4
     let x2 := if b2 then m2 :: x3 else x3
     if b1 then m1 :: x2 else x2) =
    (if b1 then [m1] else []) ++ (if b2 then [m2] else []) ++ (if b3 then [m3] else []) ++ (if b4 then [m4] else []) ++
      (if b5 then [m5] else []) ++ (if b6 then [m6] else []) ++ (if b7 then [m7] else []) := by
  cases b1 <;> cases b2 <;> cases b3 <;> cases b4 <;> cases b5 <;> cases b6 <;> cases b7 <;> rfl

theorem chain6 {α : Type} (b1 b2 b3 b4 b5 b6 : Bool) (m1 m2 m3 m4 m5 m6 : α) :
    (let x6 := if b6 then [m6] else []
     let x5 := if b5 then m5 :: x6 else x6
     let x4 := if b4 then m4 :: x5 else x5
     let x3 := if b3 then m3 :: x4 else x4
     let x2 := if b2 then m2 :: x3 else x3
     if b1 then m1 :: x2 else x2) =
    (if b1 then [m1] else []) ++ (if b2 then [m2] else []) ++ (if b3 then [m3] else []) ++ (if b4 then [m4] else []) ++
      (if b5 then [m5] else []) ++ (if b6 then [m6] else []) := by
  cases b1 <;> cases b2 <;> cases b3 <;> cases b4 <;> cases b5 <;> cases b6 <;> rfl


/-- `any(len(ru) != len(units) for ru in refs_units)` -/
theorem eval_lenMismatch {ρ : Type} (env : ρ → Val) (bv : Val) (rr ru : ρ) (units : List Str) (L : List (List Str))
    (h1 : env rr = .strss L) (h2 : env ru = .strs units) :
    eval env bv (.anyIn (.read rr) none (.cmp .ne (.len .bound) (.len (.read ru)))) =
      .ok (.bool (L.any fun x => x.length != units.length)) := by
  have := eval_anyIn_none env bv (.read rr) (.cmp .ne (.len .bound) (.len (.read ru))) (.strss L) (L.map .strs)
    (fun it => match it with | .strs x => x.length != units.length | _ => false) (by simp [eval, h1]) rfl
    (by
      intro it hit
      obtain ⟨x, -, rfl⟩ := List.mem_map.mp hit
      refine ⟨.bool (x.length != units.length), ?_, rfl⟩
      simp [eval, h2, lenOf, ok_bind, pure_ok, compare_ne_int, natCast_bne])
  rw [this, List.any_map]
  rfl

/-- `any(not units.is_si(u) for u in units if u)` -/
theorem eval_anyNonSi {ρ : Type} (env : ρ → Val) (bv : Val) (ru : ρ) (units : List Str) (h : env ru = .strs units) :
    eval env bv (.anyIn (.read ru) (some .bound) (.not (.call .isSi .bound))) = .ok (.bool (anyNonSi units)) := by
  have := eval_anyIn_some env bv (.read ru) .bound (.not (.call .isSi .bound)) (.strs units) (units.map .str)
    (fun it => match it with | .str u => !u.isEmpty && !isSi u | _ => false) (by simp [eval, h]) rfl
    (by
      intro it hit
      obtain ⟨u, -, rfl⟩ := List.mem_map.mp hit
      refine ⟨.str u, by simp [eval], ?_⟩
      by_cases hu : u.isEmpty = true
      · left; simp [truthy, hu]
      · right
        refine ⟨by simp [truthy, hu], .bool (!isSi u), ?_, by simp [truthy, hu]⟩
        simp [eval, callPrim, ok_bind, pure_ok, truthy_bool])
  rw [this, List.any_map]
  simp only [anyNonSi, List.any_filter]
  rfl

theorem guards_tag (position extent : List Rat) (arrays : List DataArray) (t : Tag)
    (hp : position.length = t.posLen) (he : extent.length = t.extLen) :
    fired (tagEnv position extent t.units t.refs.length (refArrays arrays t.refs)) guards_check_tag =
      .ok ((if t.posLen == 0 then [.NoPosition] else []) ++
           (if t.extLen != 0 && t.extLen != t.posLen then [.PositionExtentMismatch] else []) ++
           (if !t.refs.isEmpty && (refArrays arrays t.refs).any (fun da => t.posLen != da.shape.length)
            then [.PositionDimensionMismatch] else []) ++
           (if !t.refs.isEmpty && (t.extLen != 0 && (refArrays arrays t.refs).any (fun da => t.extLen != da.shape.length))
            then [.ExtentDimensionMismatch] else []) ++
           (if !t.refs.isEmpty && ((refArrays arrays t.refs).map getDimUnits).any (fun ru => ru.length != t.units.length)
            then [.ReferenceUnitsMismatch] else []) ++
           (if !t.refs.isEmpty && !unitsMatch t.units ((refArrays arrays t.refs).map getDimUnits)
            then [.ReferenceUnitsIncompatible] else []) ++
           (if anyNonSi t.units then [.InvalidUnit] else [])) := by
  let env := tagEnv position extent t.units t.refs.length (refArrays arrays t.refs)
  have h1 : fires env [.not (.read .tag_position)] = .ok (t.posLen == 0) := by
    rw [fires_one env _ _ rfl]
    simp only [env, tagEnv, truthy_bool, truthy_rats, Bool.not_not, ← hp]
    cases position <;> rfl
  have h2 : fires env [.and (.read .tag_extent) (.cmp .ne (.len (.read .tag_extent)) (.len (.read .tag_position)))] =
      .ok (t.extLen != 0 && t.extLen != t.posLen) := by
    rw [← hp, ← he]
    cases extent with
    | nil => simp [fires, eval, env, tagEnv, truthy, ok_bind, pure_ok]
    | cons x xs =>
      simp only [fires, eval, env, tagEnv, truthy, ok_bind, pure_ok, lenOf, compare_ne_int, natCast_bne,
        List.isEmpty_cons, Bool.not_false, if_true]
      cases ((x :: xs).length != position.length) <;> simp
  have hrefs : truthy (Val.sized t.refs.length) = !t.refs.isEmpty := by cases t.refs <;> rfl
  have hext : truthy (Val.rats extent) = (t.extLen != 0) := by rw [← he]; cases extent <;> rfl
  have h3 : fires env [.read .tag_references,
      .anyIn (.read .tag_references___shape) none (.cmp .ne (.read .posdim) (.len .bound))] =
      .ok (!t.refs.isEmpty && (refArrays arrays t.refs).any (fun da => t.posLen != da.shape.length)) := by
    rw [fires_two env _ _ (.sized t.refs.length) _ rfl (fun _ => eval_rankMismatch env .none .tag_references___shape
      .posdim position.length _ rfl rfl), hrefs, hp]
    rfl
  have h4 : fires env [.read .tag_references, .read .tag_extent,
      .anyIn (.read .tag_references___shape) none (.cmp .ne (.read .extlen) (.len .bound))] =
      .ok (!t.refs.isEmpty && (t.extLen != 0 && (refArrays arrays t.refs).any (fun da => t.extLen != da.shape.length))) := by
    rw [fires_three env _ _ _ (.sized t.refs.length) (.rats extent) _ rfl (fun _ => rfl)
      (fun _ _ => eval_rankMismatch env .none .tag_references___shape .extlen extent.length _ rfl rfl), hrefs, hext, he]
    rfl
  have h5 : fires env [.read .tag_references,
      .anyIn (.read .refs_units) none (.cmp .ne (.len .bound) (.len (.read .tag_units)))] =
      .ok (!t.refs.isEmpty && ((refArrays arrays t.refs).map getDimUnits).any (fun ru => ru.length != t.units.length)) := by
    rw [fires_two env _ _ (.sized t.refs.length) _ rfl (fun _ => eval_lenMismatch env .none .refs_units .tag_units
      t.units _ rfl rfl), hrefs]
    rfl
  have h6 : fires env [.anyIn (.read .tag_units) (some .bound) (.not (.call .isSi .bound))] = .ok (anyNonSi t.units) := by
    rw [fires_one env _ _ (eval_anyNonSi env .none .tag_units t.units rfl)]
    rfl
  have h7 : fires env [.read .tag_references,
      .not (.matchAll [.and (.eq .fst (.strLit "")) (.eq .snd (.strLit ""))] (.not (.scalable .fst .snd))
        (.read .tag_units) (.read .refs_units))] =
      .ok (!t.refs.isEmpty && !unitsMatch t.units ((refArrays arrays t.refs).map getDimUnits)) := by
    rw [fires_two env _ _ (.sized t.refs.length) _ rfl (fun _ => eval_not_ok _ _ _ _
      (eval_unitsMatch env .none .tag_units .refs_units t.units _ rfl rfl)), hrefs]
    rfl
  have hf := fired_cons env MsgId.NoPosition _ _ _ _ h1 (fired_cons env MsgId.PositionExtentMismatch _ _ _ _ h2
    (fired_cons env MsgId.PositionDimensionMismatch _ _ _ _ h3 (fired_cons env MsgId.ExtentDimensionMismatch _ _ _ _ h4
    (fired_cons env MsgId.ReferenceUnitsMismatch _ _ _ _ h5 (fired_cons env MsgId.ReferenceUnitsIncompatible _ _ _ _ h7
    (fired_cons env MsgId.InvalidUnit _ _ _ _ h6 (fired_nil _)))))))
  rw [guards_check_tag, hf]
  exact congrArg Except.ok (chain7 _ _ _ _ _ _ _ _ _ _ _ _ _ _)

/-! ## check_multi_tag -/

/-- a linked positions / extents array as the guard sees it: `None` (no link / `mtag.extents is None`) or an object
whose `len` is the first entry of its shape -/
def linkedVal : Option (List Nat) → Val
  | none => .none
  | some sh => .sized (sh.headD 0)

def shapeVal : Option (List Nat) → Val
  | none => .none
  | some sh => .ints (sh.map Int.ofNat)

/-- `posdim` / `extdim`: `1 if len(shape) == 1 else shape[1]` (unassigned when there is no linked array) -/
def dimVal (sh : Option (List Nat)) : Val :=
  match sh.bind secondDim with
  | some n => .int n
  | none => .none

def mtagEnv (pshape eshape : Option (List Nat)) (units : List Str) (nrefs : Nat) (refs : List DataArray) : Read → Val
  | .positions => linkedVal pshape
  | .mtag_extents => linkedVal eshape
  | .positions_shape => shapeVal pshape
  | .mtag_extents_shape => shapeVal eshape
  | .mtag_references => .sized nrefs
  | .mtag_references___shape => .intss (refs.map fun da => da.shape.map Int.ofNat)
  | .posdim => dimVal pshape
  | .extdim => dimVal eshape
  | .refs_units => .strss (refs.map getDimUnits)
  | .mtag_units => .strs units
  | _ => .none

theorem map_ofNat_inj : ∀ (a b : List Nat), a.map Int.ofNat = b.map Int.ofNat → a = b
  | [], [], _ => rfl
  | [], _ :: _, h => by simp at h
  | _ :: _, [], h => by simp at h
  | x :: xs, y :: ys, h => by
    simp only [List.map_cons, List.cons.injEq] at h
    rw [Int.ofNat.inj h.1, map_ofNat_inj xs ys h.2]

theorem compare_ne_shapes (a b : List Nat) :
    PyGuard.compare .ne (.ints (a.map Int.ofNat)) (.ints (b.map Int.ofNat)) = .ok (a != b) := by
  simp only [PyGuard.compare, valEq, num?]
  by_cases h : a = b
  · subst h; simp
  · have hv : Val.ints (a.map Int.ofNat) ≠ Val.ints (b.map Int.ofNat) :=
      fun hh => h (map_ofNat_inj a b (Val.ints.inj hh))
    have e1 : (Val.ints (a.map Int.ofNat) == Val.ints (b.map Int.ofNat)) = false := beq_eq_false_iff_ne.mpr hv
    have e2 : (a != b) = true := by simpa using h
    rw [e1, e2]
    rfl

theorem chain4 {α : Type} (b1 b2 b3 b4 : Bool) (m1 m2 m3 m4 : α) :
    (let x4 := if b4 then [m4] else []
     let x3 := if b3 then m3 :: x4 else x4
     let x2 := if b2 then m2 :: x3 else x3
     if b1 then m1 :: x2 else x2) =
    (if b1 then [m1] else []) ++ (if b2 then [m2] else []) ++ (if b3 then [m3] else []) ++ (if b4 then [m4] else []) := by
  cases b1 <;> cases b2 <;> cases b3 <;> cases b4 <;> rfl

/-- the model's test for `PositionsExtentsMismatch` -/
def pemFlag (ps : Option (List Nat)) : Option (List Nat) → Bool
  | some e => ps.isSome && firstLen e != some 0 && ps != some e
  | none => false

/-- the model's tests for the two rank comparisons of a multi-tag -/
def pdmFlag (ps : Option (List Nat)) (refs : List DataArray) : Bool :=
  ps.isSome && refs.any (fun da => ps.bind secondDim != some da.shape.length)

def edmFlag (refs : List DataArray) : Option (List Nat) → Bool
  | some e => firstLen e != some 0 && refs.any (fun da => secondDim e != some da.shape.length)
  | none => false

theorem secondDim_cons (x : Nat) (xs : List Nat) : ∃ n, secondDim (x :: xs) = some n := by
  cases xs with
  | nil => exact ⟨1, rfl⟩
  | cons y ys => exact ⟨y, rfl⟩

theorem some_bne_some (a b : Nat) : (some a != some b) = (a != b) := by
  by_cases h : a = b
  · subst h; simp
  · have e1 : (some a != some b) = true := by simpa using h
    have e2 : (a != b) = true := by simpa using h
    rw [e1, e2]

/-- for a multi-tag whose shape reads do not raise (linked arrays have rank ≥ 1) -/
theorem guards_multi_tag (arrays : List DataArray) (t : MultiTag)
    (hp : ∀ sh, MtPosShape arrays t = some sh → sh ≠ []) (he : ∀ sh, MtExtShape arrays t = some sh → sh ≠ []) :
    fired (mtagEnv (MtPosShape arrays t) (MtExtShape arrays t) t.units t.refs.length (refArrays arrays t.refs))
        guards_check_multi_tag =
      .ok ((if (MtPosShape arrays t).isNone || (MtPosShape arrays t).bind firstLen == some 0 then [.NoPositions] else []) ++
           (if pemFlag (MtPosShape arrays t) (MtExtShape arrays t) then [.PositionsExtentsMismatch] else []) ++
           (if !t.refs.isEmpty && pdmFlag (MtPosShape arrays t) (refArrays arrays t.refs)
            then [.PositionsDimensionMismatch] else []) ++
           (if !t.refs.isEmpty && edmFlag (refArrays arrays t.refs) (MtExtShape arrays t)
            then [.ExtentsDimensionMismatch] else []) ++
           (if !t.refs.isEmpty && ((refArrays arrays t.refs).map getDimUnits).any (fun ru => ru.length != t.units.length)
            then [.ReferenceUnitsMismatch] else []) ++
           (if !t.refs.isEmpty && !unitsMatch t.units ((refArrays arrays t.refs).map getDimUnits)
            then [.ReferenceUnitsIncompatible] else []) ++
           (if anyNonSi t.units then [.InvalidUnit] else [])) := by
  generalize hps : MtPosShape arrays t = ps at hp ⊢
  generalize hes : MtExtShape arrays t = es at he ⊢
  let env := mtagEnv ps es t.units t.refs.length (refArrays arrays t.refs)
  have hrefs : truthy (Val.sized t.refs.length) = !t.refs.isEmpty := by cases t.refs <;> rfl
  have h1 : fires env [.not (.read .positions)] = .ok (ps.isNone || ps.bind firstLen == some 0) := by
    rw [fires_one env _ _ rfl]
    cases ps with
    | none => rfl
    | some sh =>
      cases sh with
      | nil => exact absurd rfl (hp [] rfl)
      | cons x xs =>
        simp only [env, mtagEnv, linkedVal, truthy_bool, truthy, List.headD_cons, Option.isNone_some, Bool.false_or,
          Option.bind_some, firstLen, List.head?_cons]
        by_cases hx : x = 0 <;> simp [hx, bne]
  have h2 : fires env [.and (.isNotNone (.read .positions)) (.and (.read .mtag_extents)
        (.cmp .ne (.read .positions_shape) (.read .mtag_extents_shape)))] =
      .ok (pemFlag ps es) := by
    cases ps with
    | none => cases es <;> simp [fires, eval, env, mtagEnv, linkedVal, truthy, ok_bind, pure_ok, pemFlag]
    | some sh =>
      cases es with
      | none => simp [fires, eval, env, mtagEnv, linkedVal, truthy, ok_bind, pure_ok, pemFlag]
      | some e =>
        cases e with
        | nil => exact absurd rfl (he [] rfl)
        | cons y ys =>
          by_cases hy : y = 0
          · simp [fires, eval, env, mtagEnv, linkedVal, truthy, ok_bind, pure_ok, hy, firstLen, pemFlag]
          · simp only [fires, eval, env, mtagEnv, linkedVal, shapeVal, truthy, ok_bind, pure_ok, hy, firstLen,
              List.headD_cons, compare_ne_shapes, pemFlag]
            by_cases hse : sh = y :: ys <;> simp [hse, hy]
  have h3 : fires env [.read .mtag_references, .isNotNone (.read .positions),
      .anyIn (.read .mtag_references___shape) none (.cmp .ne (.read .posdim) (.len .bound))] =
      .ok (!t.refs.isEmpty && pdmFlag ps (refArrays arrays t.refs)) := by
    cases ps with
    | none =>
      rw [fires_three env _ _ _ (.sized t.refs.length) (.bool false) .none rfl (fun _ => rfl)
        (fun _ h => by simp [truthy] at h), hrefs]
      simp [pdmFlag, truthy]
    | some sh =>
      cases sh with
      | nil => exact absurd rfl (hp [] rfl)
      | cons x xs =>
        obtain ⟨n, hn⟩ := secondDim_cons x xs
        have hpd : env .posdim = .int n := by simp [env, mtagEnv, dimVal, hn]
        rw [fires_three env _ _ _ (.sized t.refs.length) (.bool true) _ rfl (fun _ => rfl)
          (fun _ _ => eval_rankMismatch env .none .mtag_references___shape .posdim n _ rfl hpd), hrefs]
        simp only [pdmFlag, truthy_bool, Bool.true_and, Option.isSome_some, Option.bind_some, hn, some_bne_some]
  have h4 : fires env [.read .mtag_references, .read .mtag_extents,
      .anyIn (.read .mtag_references___shape) none (.cmp .ne (.read .extdim) (.len .bound))] =
      .ok (!t.refs.isEmpty && edmFlag (refArrays arrays t.refs) es) := by
    cases es with
    | none =>
      rw [fires_three env _ _ _ (.sized t.refs.length) .none .none rfl (fun _ => rfl)
        (fun _ h => by simp [truthy] at h), hrefs]
      simp [edmFlag, truthy]
    | some e =>
      cases e with
      | nil => exact absurd rfl (he [] rfl)
      | cons y ys =>
        obtain ⟨n, hn⟩ := secondDim_cons y ys
        have hed : env .extdim = .int n := by simp [env, mtagEnv, dimVal, hn]
        rw [fires_three env _ _ _ (.sized t.refs.length) (.sized y) _ rfl (fun _ => rfl)
          (fun _ _ => eval_rankMismatch env .none .mtag_references___shape .extdim n _ rfl hed), hrefs]
        simp only [edmFlag, firstLen, List.head?_cons, hn, some_bne_some, truthy]
  have h5 : fires env [.read .mtag_references,
      .anyIn (.read .refs_units) none (.cmp .ne (.len .bound) (.len (.read .mtag_units)))] =
      .ok (!t.refs.isEmpty && ((refArrays arrays t.refs).map getDimUnits).any (fun ru => ru.length != t.units.length)) := by
    rw [fires_two env _ _ (.sized t.refs.length) _ rfl (fun _ => eval_lenMismatch env .none .refs_units .mtag_units
      t.units _ rfl rfl), hrefs]
    rfl
  have h6 : fires env [.anyIn (.read .mtag_units) (some .bound) (.not (.call .isSi .bound))] = .ok (anyNonSi t.units) := by
    rw [fires_one env _ _ (eval_anyNonSi env .none .mtag_units t.units rfl)]
    rfl
  have h7 : fires env [.read .mtag_references,
      .not (.matchAll [.and (.eq .fst (.strLit "")) (.eq .snd (.strLit ""))] (.not (.scalable .fst .snd))
        (.read .mtag_units) (.read .refs_units))] =
      .ok (!t.refs.isEmpty && !unitsMatch t.units ((refArrays arrays t.refs).map getDimUnits)) := by
    rw [fires_two env _ _ (.sized t.refs.length) _ rfl (fun _ => eval_not_ok _ _ _ _
      (eval_unitsMatch env .none .mtag_units .refs_units t.units _ rfl rfl)), hrefs]
    rfl
  have hf := fired_cons env MsgId.NoPositions _ _ _ _ h1 (fired_cons env MsgId.PositionsExtentsMismatch _ _ _ _ h2
    (fired_cons env MsgId.PositionsDimensionMismatch _ _ _ _ h3 (fired_cons env MsgId.ExtentsDimensionMismatch _ _ _ _ h4
    (fired_cons env MsgId.ReferenceUnitsMismatch _ _ _ _ h5 (fired_cons env MsgId.ReferenceUnitsIncompatible _ _ _ _ h7
    (fired_cons env MsgId.InvalidUnit _ _ _ _ h6 (fired_nil _)))))))
  rw [guards_check_multi_tag, hf]
  exact congrArg Except.ok (chain7 _ _ _ _ _ _ _ _ _ _ _ _ _ _)

/-! ## get_dim_units -/

/-- the reads of the loop of `get_dim_units` for one descriptor -/
def dimUnitEnv (d : Dim) : Read → Val
  | .dim_dimension_type => .enum (kindName d.kind)
  | .dim_unit => ofOptStr d.unit
  | _ => .none

/-- one iteration appends the descriptor's unit ("" for none, an empty one, or a set descriptor) -/
theorem appended_dimUnit (d : Dim) :
    appended (dimUnitEnv d) getDimUnitsBranches =
      .ok (some (.str (match d.kind with
        | .range | .sample => (match d.unit with | some u => if u.isEmpty then [] else u | none => [])
        | .set => []))) := by
  have e : "".toList = ([] : List Char) := rfl
  rcases d with ⟨kind, index, ticks, nLabels, interval, unit⟩
  cases kind <;> cases unit with
  | none => simp [getDimUnitsBranches, appended, eval, dimUnitEnv, kindName, ok_bind, pure_ok, compare_eq_enum, truthy,
      ofOptStr, e]
  | some u =>
    by_cases hu : u.isEmpty = true <;>
      simp [getDimUnitsBranches, appended, eval, dimUnitEnv, kindName, ok_bind, pure_ok, compare_eq_enum, truthy,
        ofOptStr, e, hu]

/-- `get_dim_units`, compiled, is the model's `getDimUnits` -/
theorem collected_getDimUnits (dims : List Dim) :
    collected getDimUnitsBranches (dims.map dimUnitEnv) =
      .ok ((getDimUnits { ent := ⟨none, none, false, none, none⟩, dataType := none, shape := [], dims := dims }).map .str) := by
  induction dims with
  | nil => rfl
  | cons d rest ih =>
    simp only [List.map_cons, collected, appended_dimUnit, ih, getDimUnits]
    cases d.kind <;> rfl

end Nix.Validator.Lemmas
