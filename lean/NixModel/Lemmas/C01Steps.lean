import NixModel.Lemmas.C01Append

/-! Helper lemmas for C01: what each step of the nixio-level model does, stated pointwise. -/
namespace Nix.Nd.Lemmas
open Nix Nix.Nd

/-- appending is meaningful: same rank, the axis names a dimension, all other extents agree -/
def AppendOk (s d : List Nat) (axis : Int) : Prop :=
  s.length = d.length ∧ 0 ≤ axis ∧ axis < (s.length : Int) ∧ ∀ j : Nat, (j : Int) ≠ axis → s[j]? = d[j]?

/-- `append` on a valid axis, fully evaluated: extent change to the enlarged shape, then the hyperslab write -/
theorem append_ok (A : DArr) (D : NdArray Elem) (k : Nat)
    (hl : A.arr.shape.length = (contiguous D).shape.length) (hk : k < A.arr.shape.length)
    (hm : shapeMismatch (k : Int) A.arr.shape (contiguous D).shape = false) :
    append A D (k : Int) = .ok ⟨A.dtype, A.compressed,
      NdArray.setRegion
        (A.arr.resize A.dtype.fill (appendEnlarge (k : Int) A.arr.shape (contiguous D).shape))
        (mkSel (appendOffset (k : Int) A.arr.shape) (contiguous D).shape) (contiguous D)⟩ := by
  have hax : (0 : Int) ≤ (k : Int) ∧ (k : Int) < (A.arr.shape.length : Int) := by omega
  have hlenE : (appendEnlarge (k : Int) A.arr.shape (contiguous D).shape).length = A.arr.shape.length := by
    rw [appendEnlarge_eq_set k _ _ hl hk]; simp
  unfold append
  dsimp only
  rw [if_neg (fun hne => hne hl), if_neg (fun hn => hn hax), if_neg (by simp [hm])]
  unfold setExtent
  have hlen2 : ¬ ((List.map Int.ofNat (appendEnlarge (k : Int) A.arr.shape (contiguous D).shape)).length
      ≠ A.arr.shape.length) := by simp [hlenE]
  rw [if_neg hlen2, if_neg (by simp [allNonneg_ofNat]), map_toNat_ofNat]
  dsimp only
  unfold assign
  simp only [NdArray.resize, select_appendSlices _ _ _ (fits_append k _ _ hl hk hm)]
  have hc : (mkSel (appendOffset (k : Int) A.arr.shape) (contiguous D).shape).map (·.count)
      = (contiguous D).shape := mkSel_counts _ _ (by rw [length_appendOffset, hl])
  rw [bcastOk_exact _ _ hc (mkSel_nonscalar _ _)]
  simp

theorem append_refused (A : DArr) (D : NdArray Elem) (axis : Int)
    (h : ¬ AppendOk A.arr.shape (contiguous D).shape axis) : append A D axis = .error .valueError := by
  unfold append
  dsimp only
  by_cases hl : A.arr.shape.length = (contiguous D).shape.length
  · rw [if_neg (fun hne => hne hl)]
    by_cases hax : 0 ≤ axis ∧ axis < (A.arr.shape.length : Int)
    · rw [if_neg (fun hn => hn hax)]
      have hm : shapeMismatch axis A.arr.shape (contiguous D).shape = true := by
        cases hmm : shapeMismatch axis A.arr.shape (contiguous D).shape with
        | true => rfl
        | false =>
          exact absurd ⟨hl, hax.1, hax.2, (shapeMismatch_false_iff axis _ _ hl).mp hmm⟩ h
      rw [if_pos hm]
    · rw [if_pos hax]
  · rw [if_pos hl]

end Nix.Nd.Lemmas
