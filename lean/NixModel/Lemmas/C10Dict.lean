import NixModel.Lemmas.C10State

/-!
# C10 helper lemmas, part 3: what each operation does to the state; dictionary lookups
-/
namespace Nix.PropVals
open Nix.Units (Str)

/-! ## identity of a property across a transition -/

theorem Trans.head_fixed {st st' : State} (t : Trans st st') (hinv : Inv st) {p p' : PropRec}
    (hp : p ∈ st.props) (hp' : p' ∈ st'.props) (hid : p'.id = p.id) : SameHead p p' := by
  cases t with
  | same =>
    rw [eq_of_id hinv.ids hp' hp hid]; exact SameHead.refl p
  | put p0 q hp0 hh ht =>
    rcases mem_putProp hp' with rfl | ⟨hm, _⟩
    · have : p = p0 := eq_of_id hinv.ids hp hp0 (by rw [← hid, hh.id])
      subst this; exact hh
    · rw [eq_of_id hinv.ids hm hp hid]; exact SameHead.refl p
  | addProp q hq hname ht =>
    simp only [List.mem_append, List.mem_singleton] at hp'
    rcases hp' with hm | rfl
    · rw [eq_of_id hinv.ids hm hp hid]; exact SameHead.refl p
    · have := hinv.propFresh p hp
      omega
  | addSec x hx hname =>
    rw [eq_of_id hinv.ids hp' hp hid]; exact SameHead.refl p
  | del n =>
    rw [eq_of_id hinv.ids (List.mem_filter.mp hp').1 hp hid]; exact SameHead.refl p

/-! ## `onProp` -/

theorem onProp_ok {st : State} {k : PKey} {f : PropRec → PropRec × Except Err Unit} {r : Res}
    (h : (onProp st k f).2 = .ok r) :
    ∃ p, findProp st k = .ok p ∧ (f p).2 = .ok () ∧ (onProp st k f).1 = st.putProp (f p).1 := by
  unfold onProp at h ⊢
  cases hf : findProp st k with
  | error e => simp [hf] at h
  | ok p =>
    simp only [hf] at h ⊢
    cases hr : (f p).2 with
    | error e => simp [hr] at h
    | ok u => exact ⟨p, rfl, hr, rfl⟩

theorem onProp_error {st : State} {k : PKey} {f : PropRec → PropRec × Except Err Unit} {e : Err}
    (h : (onProp st k f).2 = .error e) :
    (findProp st k = .error e ∧ (onProp st k f).1 = st) ∨
    (∃ p, findProp st k = .ok p ∧ (f p).2 = .error e ∧ (onProp st k f).1 = st.putProp (f p).1) := by
  unfold onProp at h ⊢
  cases hf : findProp st k with
  | error e' => simp [hf] at h; subst h; exact Or.inl ⟨rfl, rfl⟩
  | ok p =>
    simp only [hf] at h ⊢
    cases hr : (f p).2 with
    | error e' => simp [hr] at h; subst h; exact Or.inr ⟨p, rfl, hr, rfl⟩
    | ok u => simp [hr] at h

/-- a mutator that leaves the record untouched when it refuses leaves the whole state untouched -/
theorem onProp_refused {st : State} (hinv : Inv st) {k : PKey} {f : PropRec → PropRec × Except Err Unit}
    {e : Err} (h : (onProp st k f).2 = .error e) (hf : ∀ p, (f p).2 = .error e → (f p).1 = p) :
    (onProp st k f).1 = st := by
  rcases onProp_error h with ⟨_, h'⟩ | ⟨p, hp, he, h'⟩
  · exact h'
  · rw [h', hf p he]; exact putProp_self hinv.ids (findProp_mem hp)

/-! ## `create_property` -/

theorem createPlan_list_check {ws : List PyVal} {dt : TypeArg ⊕ DType} {n : Nat} {inp : Input}
    (h : createPlan inp = .ok (dt, n, .list ws)) (hne : ws ≠ []) :
    ∃ d, dt = .inr d ∧ checkNewValueTypes d (.list ws) = .ok () := by
  cases inp with
  | none => simp [createPlan] at h
  | type t => simp [createPlan] at h; exact absurd h.2.2 hne
  | list vs =>
    cases vs with
    | nil => simp [createPlan] at h
    | cons v vs =>
      simp only [createPlan] at h
      cases hv : getDtype v with
      | error e => simp [hv] at h
      | ok d =>
        simp only [hv] at h
        cases hc : checkConsistent d (v :: vs) with
        | error e => simp [hc] at h
        | ok u =>
          simp [hc] at h
          obtain ⟨h1, _, h3⟩ := h
          subst h3
          exact ⟨d, h1.symm, by simp [checkNewValueTypes, hv, hc]⟩
  | scalar v =>
    simp only [createPlan] at h
    by_cases he : v.isEmptyStr = true
    · simp [he] at h
    · simp only [he] at h
      cases hv : getDtype v with
      | error e => simp [hv] at h
      | ok d =>
        simp only [hv] at h
        cases hc : checkConsistent d [v] with
        | error e => simp [hc] at h
        | ok u =>
          simp [hc] at h
          obtain ⟨h1, _, h3⟩ := h
          subst h3
          exact ⟨d, h1.symm, by simp [checkNewValueTypes, hv, hc]⟩
  | ndarray a shape data =>
    simp only [createPlan] at h
    split at h
    · simp at h
    · simp at h
    · split at h
      · simp at h
      · split at h <;> simp at h
    · simp at h

theorem createPlan_vals {inp vals : Input} {dt : TypeArg ⊕ DType} {n : Nat}
    (h : createPlan inp = .ok (dt, n, vals)) :
    (∃ ws, vals = .list ws) ∨ (∃ a s d, inp = .ndarray a s d ∧ vals = inp) := by
  cases inp with
  | none => simp [createPlan] at h
  | type t => simp [createPlan] at h; exact Or.inl ⟨[], h.2.2.symm⟩
  | list vs =>
    cases vs with
    | nil => simp [createPlan] at h
    | cons v vs =>
      simp only [createPlan] at h
      split at h
      · simp at h
      · split at h
        · simp at h
        · simp at h; exact Or.inl ⟨v :: vs, h.2.2.symm⟩
  | scalar v =>
    simp only [createPlan] at h
    split at h
    · simp at h
    · split at h
      · simp at h
      · split at h
        · simp at h
        · simp at h; exact Or.inl ⟨[v], h.2.2.symm⟩
  | ndarray a shape data =>
    right
    refine ⟨a, shape, data, rfl, ?_⟩
    simp only [createPlan] at h
    split at h
    · simp at h
    · simp at h
    · split at h
      · simp at h
      · split at h
        · simp at h; exact h.2.2.symm
        · simp at h
    · simp at h

/-- an array that passed `create_property`'s own dtype comparison passes the setter's check -/
theorem createPlan_nd_check {a : ADType} {s : List Nat} {dd : List Cell} {dt : TypeArg ⊕ DType} {n : Nat}
    {vals : Input} (h : createPlan (.ndarray a s dd) = .ok (dt, n, vals)) :
    ∃ d m, dt = .inr d ∧ s = [m + 1] ∧ vals = .ndarray a s dd ∧
      checkNewValueTypes d (.ndarray a s dd) = .ok () := by
  cases s with
  | nil => simp [createPlan] at h
  | cons m ms =>
    cases m with
    | zero => simp [createPlan] at h
    | succ m =>
      cases ms with
      | cons k ks => simp [createPlan] at h
      | nil =>
        simp only [createPlan] at h
        cases hc : getDtypeCls a.elemClass with
        | error e => simp [hc] at h
        | ok d =>
          simp only [hc] at h
          by_cases hm : arrMatches a d = true
          · simp [hm] at h
            refine ⟨d, m, h.1.symm, rfl, h.2.2.symm, ?_⟩
            simp [checkNewValueTypes, hm]
          · simp [hm] at h

theorem asListData_list (inp : Input) : ∃ ws, inp.asListData = .list ws := by
  cases inp <;> exact ⟨_, rfl⟩

theorem createPlan_of_list {ws : List PyVal} {vals : Input} {dt : TypeArg ⊕ DType} {n : Nat}
    (h : createPlan (.list ws) = .ok (dt, n, vals)) : vals = .list ws := by
  cases ws with
  | nil => simp [createPlan] at h
  | cons v vs =>
    simp only [createPlan] at h
    split at h
    · simp at h
    · split at h
      · simp at h
      · simp at h; exact h.2.2.symm

/-- the complete case analysis of `create_property`: it raises and nothing was created, or it
succeeds and exactly one property — holding the assigned values — was appended -/
theorem createProperty_cases (st : State) (name : Str) (inp : Input) :
    (∃ e, createProperty st name inp = (st, .error e)) ∨
    (∃ dt n vals d, createPlan inp = .ok (dt, n, vals) ∧ resolveDtype dt = .ok d ∧ nameOk name = true ∧
      (∀ p ∈ st.props, p.name ≠ name) ∧ (setValues (newProp st name d n) vals).2 = .ok () ∧
      createProperty st name inp =
        ({ st with props := st.props ++ [(setValues (newProp st name d n) vals).1], next := st.next + 1 },
         .ok ())) := by
  by_cases hdup : st.props.any (·.name == name) = true
  · left; exact ⟨.duplicateName, by simp [createProperty, hdup]⟩
  · cases hplan : createPlan inp with
    | error e => left; exact ⟨e, by simp [createProperty, hdup, hplan]⟩
    | ok r =>
      obtain ⟨dt, n, vals⟩ := r
      by_cases hname : nameOk name = true
      · cases hd : resolveDtype dt with
        | error e => left; exact ⟨e, by simp [createProperty, hdup, hplan, hname, hd]⟩
        | ok d =>
          cases hr : (setValues (newProp st name d n) vals).2 with
          | error e => left; exact ⟨e, by simp [createProperty, hdup, hplan, hname, hd, hr]⟩
          | ok u =>
            right
            refine ⟨dt, n, vals, d, rfl, hd, hname, ?_, hr,
              by simp [createProperty, hdup, hplan, hname, hd, hr]⟩
            intro p hp hne
            apply hdup
            rw [List.any_eq_true]
            exact ⟨p, hp, by simp [hne]⟩
      · left; exact ⟨.valueError, by simp [createProperty, hdup, hplan, hname]⟩

/-- whatever `create_property` raises, nothing was created -/
theorem createProperty_refused {st : State} {name : Str} {inp : Input} {e : Err}
    (h : (createProperty st name inp).2 = .error e) : (createProperty st name inp).1 = st := by
  rcases createProperty_cases st name inp with ⟨e', h'⟩ | ⟨dt, n, vals, d, _, _, _, _, _, h'⟩
  · rw [h']
  · rw [h'] at h; simp at h

/-- the TypeError of `create_property` is a verdict of the checks that precede creation: the final
assignment never raises it (lists passed the consistency scan, arrays the dtype comparison) -/
theorem createProperty_assign_not_typeError {st : State} {name : Str} {inp vals : Input}
    {dt : TypeArg ⊕ DType} {n : Nat} {d : DType}
    (hplan : createPlan inp = .ok (dt, n, vals)) (hd : resolveDtype dt = .ok d) :
    (setValues (newProp st name d n) vals).2 ≠ .error .typeError := by
  intro h
  rcases createPlan_vals hplan with ⟨ws, rfl⟩ | ⟨a, s, dd, hi, _⟩
  · cases ws with
    | nil => simp [setValues, PropRec.clear] at h
    | cons w ws =>
      obtain ⟨d', hdt, hchk⟩ := createPlan_list_check hplan (by simp)
      subst hdt
      simp [resolveDtype] at hd
      subst hd
      generalize hp0 : newProp st name d' n = p0 at h
      have hdp : p0.dtype = d' := by rw [← hp0]; rfl
      have hsv : setValues p0 (.list (w :: ws)) = assignList p0 (w :: ws) := rfl
      rw [hsv] at h
      rcases assignList_result p0 (w :: ws) with ⟨cells, hres, _⟩ | ⟨e', hres, hce⟩ | ⟨hres, _⟩
      · rw [hres] at h; simp at h
      · rw [hres] at h
        simp at h
        subst h
        rw [hdp, hchk] at hce
        rcases hce with hce | ⟨_, hce⟩ <;> cases hce
      · rw [hres] at h; simp at h
  · subst hi
    obtain ⟨d', m, hdt, hs, hv, hchk⟩ := createPlan_nd_check hplan
    subst hdt hs hv
    simp [resolveDtype] at hd
    subst hd
    generalize hp0 : newProp st name d' n = p0 at h
    have hdp : p0.dtype = d' := by rw [← hp0]; rfl
    rw [← hdp] at hchk
    simp [setValues, hchk] at h

theorem createSection_error {st : State} {name type : Str} {e : Err}
    (h : (createSection st name type).2 = .error e) : (createSection st name type).1 = st := by
  unfold createSection at h ⊢
  split
  · rfl
  · split
    · rfl
    · split
      · rfl
      · rename_i h1 h2 h3
        simp [h1, h2, h3] at h

/-! ## generic keyed lookup -/

theorem eq_of_key {α β : Type} (f : α → β) {l : List α} (hn : (l.map f).Nodup) {p q : α} (hp : p ∈ l)
    (hq : q ∈ l) (h : f p = f q) : p = q := by
  induction l with
  | nil => simp at hp
  | cons x xs ih =>
    simp only [List.map_cons, List.nodup_cons, List.mem_map, not_exists, not_and] at hn
    rcases List.mem_cons.mp hp with rfl | hp' <;> rcases List.mem_cons.mp hq with rfl | hq'
    · rfl
    · exact absurd h.symm (hn.1 q hq')
    · exact absurd h (hn.1 p hp')
    · exact ih hn.2 hp' hq'

theorem find?_key_of_mem {α β : Type} [BEq β] [LawfulBEq β] (f : α → β) {l : List α} (hn : (l.map f).Nodup)
    {p : α} (hp : p ∈ l) : l.find? (fun x => f x == f p) = some p := by
  cases h : l.find? (fun x => f x == f p) with
  | none =>
    rw [List.find?_eq_none] at h
    exact absurd (by simp) (h p hp)
  | some q =>
    have hq := List.mem_of_find?_eq_some h
    have hid : f q = f p := by simpa using List.find?_some h
    rw [eq_of_key f hn hq hp hid]

/-! ## dictionary lookups -/

theorem propsContains_iff {st : State} {k : Key} :
    propsContains st k = true ↔ ∃ p, findProp st (.key k) = .ok p := by
  cases k with
  | id n =>
    simp only [propsContains, findProp, List.any_eq_true]
    constructor
    · rintro ⟨p, hp, hid⟩
      cases h : st.props.find? (·.id == n) with
      | none => rw [List.find?_eq_none] at h; exact absurd hid (h p hp)
      | some q => exact ⟨q, rfl⟩
    · rintro ⟨p, hp⟩
      cases h : st.props.find? (·.id == n) with
      | none => simp [h] at hp
      | some q => exact ⟨q, List.mem_of_find?_eq_some h, by simpa using List.find?_some h⟩
  | name s =>
    simp only [propsContains, findProp, List.any_eq_true]
    constructor
    · rintro ⟨p, hp, hid⟩
      cases h : st.props.find? (·.name == s) with
      | none => rw [List.find?_eq_none] at h; exact absurd hid (h p hp)
      | some q => exact ⟨q, rfl⟩
    · rintro ⟨p, hp⟩
      cases h : st.props.find? (·.name == s) with
      | none => simp [h] at hp
      | some q => exact ⟨q, List.mem_of_find?_eq_some h, by simpa using List.find?_some h⟩

theorem secsContains_iff {st : State} {k : Key} :
    secsContains st k = true ↔ ∃ x, findSec st k = .ok x := by
  cases k with
  | id n =>
    simp only [secsContains, findSec, List.any_eq_true]
    constructor
    · rintro ⟨p, hp, hid⟩
      cases h : st.secs.find? (·.id == n) with
      | none => rw [List.find?_eq_none] at h; exact absurd hid (h p hp)
      | some q => exact ⟨q, rfl⟩
    · rintro ⟨p, hp⟩
      cases h : st.secs.find? (·.id == n) with
      | none => simp [h] at hp
      | some q => exact ⟨q, List.mem_of_find?_eq_some h, by simpa using List.find?_some h⟩
  | name s =>
    simp only [secsContains, findSec, List.any_eq_true]
    constructor
    · rintro ⟨p, hp, hid⟩
      cases h : st.secs.find? (·.name == s) with
      | none => rw [List.find?_eq_none] at h; exact absurd hid (h p hp)
      | some q => exact ⟨q, rfl⟩
    · rintro ⟨p, hp⟩
      cases h : st.secs.find? (·.name == s) with
      | none => simp [h] at hp
      | some q => exact ⟨q, List.mem_of_find?_eq_some h, by simpa using List.find?_some h⟩

/-- how a property's value list is handed out by `section[key]` -/
def unwrap : List Cell → Item
  | [c] => .scalar c
  | cs => .values cs

theorem getitem_prop {st : State} {k : Key} {p : PropRec} (h : findProp st (.key k) = .ok p) :
    getitem st k = .ok (unwrap p.vals) := by
  have hc : propsContains st k = true := propsContains_iff.mpr ⟨p, h⟩
  simp only [getitem, hc, h]
  simp only [Bool.not_true, Bool.false_and]
  cases p.vals with
  | nil => rfl
  | cons c cs => cases cs <;> rfl

theorem getitem_sec {st : State} {k : Key} {x : SecRec} (hp : propsContains st k = false)
    (h : findSec st k = .ok x) : getitem st k = .ok (.section x) := by
  have hc : secsContains st k = true := secsContains_iff.mpr ⟨x, h⟩
  simp [getitem, hp, hc, h]

theorem contains_iff_getitem {st : State} {k : Key} :
    contains st k = true ↔ ∃ i, getitem st k = .ok i := by
  simp only [contains, Bool.or_eq_true]
  constructor
  · rintro (h | h)
    · obtain ⟨p, hp⟩ := propsContains_iff.mp h
      exact ⟨_, getitem_prop hp⟩
    · by_cases hpc : propsContains st k = true
      · obtain ⟨p, hp⟩ := propsContains_iff.mp hpc
        exact ⟨_, getitem_prop hp⟩
      · obtain ⟨x, hx⟩ := secsContains_iff.mp h
        exact ⟨_, getitem_sec (by simpa using hpc) hx⟩
  · rintro ⟨i, hi⟩
    by_cases hpc : propsContains st k = true
    · exact Or.inl hpc
    · right
      by_cases hsc : secsContains st k = true
      · exact hsc
      · exfalso
        have hpc' : propsContains st k = false := by simpa using hpc
        have hsc' : secsContains st k = false := by simpa using hsc
        simp only [getitem, hpc', hsc'] at hi
        simp at hi
        cases hf : findProp st (.key k) with
        | error e => simp [hf] at hi
        | ok p => exact hpc (propsContains_iff.mpr ⟨p, hf⟩)

theorem findProp_name_of_mem {st : State} (hinv : Inv st) {p : PropRec} (hp : p ∈ st.props) :
    findProp st (.key (.name p.name)) = .ok p := by
  simp only [findProp]; rw [find?_name_of_mem hinv.names hp]

theorem findProp_id_of_mem {st : State} (hinv : Inv st) {p : PropRec} (hp : p ∈ st.props) :
    findProp st (.key (.id p.id)) = .ok p := by
  simp only [findProp]; rw [find?_id_of_mem hinv.ids hp]

theorem findSec_name_of_mem {st : State} (hinv : Inv st) {x : SecRec} (hx : x ∈ st.secs) :
    findSec st (.name x.name) = .ok x := by
  have : st.secs.find? (fun y => y.name == x.name) = some x :=
    find?_key_of_mem (fun y : SecRec => y.name) hinv.secNames hx
  simp only [findSec]; rw [this]

theorem findSec_id_of_mem {st : State} (hinv : Inv st) {x : SecRec} (hx : x ∈ st.secs) :
    findSec st (.id x.id) = .ok x := by
  have : st.secs.find? (fun y => y.id == x.id) = some x :=
    find?_key_of_mem (fun y : SecRec => y.id) hinv.secIds hx
  simp only [findSec]; rw [this]

/-! ## deletion -/

theorem filter_id_length {l : List PropRec} (hn : (l.map (·.id)).Nodup) {p : PropRec} (hp : p ∈ l) :
    (l.filter (·.id != p.id)).length + 1 = l.length := by
  induction l with
  | nil => simp at hp
  | cons x xs ih =>
    simp only [List.map_cons, List.nodup_cons, List.mem_map, not_exists, not_and] at hn
    rcases List.mem_cons.mp hp with rfl | hp'
    · have : xs.filter (·.id != p.id) = xs := by
        rw [List.filter_eq_self]
        intro y hy
        have := hn.1 y hy
        simp; exact this
      simp [this]
    · have hne : x.id ≠ p.id := fun h => hn.1 p hp' h.symm
      simp [hne, ih hn.2 hp']

theorem delitem_ok {st : State} {k : PKey} (h : (delitem st k).2 = .ok ()) :
    ∃ p, findProp st k = .ok p ∧
      (delitem st k).1 = { st with props := st.props.filter (·.id != p.id),
                                   secs := st.secs.filter (·.id != p.id) } := by
  unfold delitem at h ⊢
  cases hf : findProp st k with
  | error e => simp [hf] at h
  | ok p => exact ⟨p, rfl, rfl⟩

theorem delitem_error {st : State} {k : PKey} {e : Err} (h : (delitem st k).2 = .error e) :
    (delitem st k).1 = st := by
  unfold delitem at h ⊢
  cases hf : findProp st k with
  | error e => rfl
  | ok p => simp [hf] at h

end Nix.PropVals
