import NixModel.Lemmas.C13File

/-!
# C13 — every history of operations leads to a well-formed file

`step` either adds exactly one fresh id (creates) or keeps / removes ids in place (everything else);
the `_sec_parent` a creation handle carries is the id of the section the new one was appended to, and
no later operation moves a section.  Hence `WF` is an invariant of `run`.
-/

namespace Nix.Tree

/-! ## ids of a forest under the tree updates -/

theorem keysL_nil : keysL [] = [] := rfl

theorem keysL_cons (c : Node) (cs : List Node) : keysL (c :: cs) = c.keys ++ keysL cs := by
  simp [keysL, Node.keys, nodesL]

theorem keysL_append (a b : List Node) : keysL (a ++ b) = keysL a ++ keysL b := by
  simp [keysL, nodesL_append]

theorem Node.keys_mk (i : Info) (cs : List Node) : (Node.mk i cs).keys = i.key :: keysL cs := by
  simp [Node.keys, Node.nodes, keysL, Node.key, Node.info]

theorem keysL_newNode (k : Nat) (n t : String) (cp : Option Nat) : keysL [newNode k n t cp] = [k] := by
  simp [keysL_cons, newNode, Node.keys_mk, keysL_nil]

theorem newNode_keys (k : Nat) (n t : String) (cp : Option Nat) : (newNode k n t cp).keys = [k] := by
  simp [newNode, Node.keys_mk, keysL_nil]

mutual
theorem Node.insertUnder_id (pk : Nat) (new : Node) : ∀ n : Node, pk ∉ n.keys → Node.insertUnder pk new n = n
  | .mk i cs, h => by
    rw [Node.keys_mk, List.mem_cons, not_or] at h
    have hne : ¬ i.key = pk := fun e => h.1 e.symm
    rw [Node.insertUnder]
    simp only [hne, if_false, insertUnderL_id pk new cs h.2]
theorem insertUnderL_id (pk : Nat) (new : Node) : ∀ cs : List Node, pk ∉ keysL cs → insertUnderL pk new cs = cs
  | [], _ => by simp [insertUnderL]
  | c :: cs, h => by
    rw [keysL_cons, List.mem_append, not_or] at h
    rw [insertUnderL, Node.insertUnder_id pk new c h.1, insertUnderL_id pk new cs h.2]
end

mutual
theorem Node.insertUnder_keys (pk : Nat) (new : Node) : ∀ n : Node, n.keys.Nodup → pk ∈ n.keys →
    (Node.insertUnder pk new n).keys.Perm (new.keys ++ n.keys)
  | .mk i cs, hn, hm => by
    rw [Node.keys_mk] at hn hm
    rw [List.nodup_cons] at hn
    rw [Node.insertUnder]
    by_cases hk : i.key = pk
    · simp only [hk, if_true]
      have hnot : pk ∉ keysL cs := hk ▸ hn.1
      rw [insertUnderL_id pk new cs hnot, Node.keys_mk, Node.keys_mk, keysL_append, keysL_cons, keysL_nil,
        List.append_nil, hk]
      -- pk :: (keysL cs ++ new.keys) ~ new.keys ++ pk :: keysL cs
      exact (List.Perm.cons _ List.perm_append_comm).trans List.perm_middle.symm
    · simp only [hk, if_false]
      have hm' : pk ∈ keysL cs := by
        rcases List.mem_cons.mp hm with h | h
        · exact absurd h.symm hk
        · exact h
      rw [Node.keys_mk, Node.keys_mk]
      exact (List.Perm.cons _ (insertUnderL_keys pk new cs hn.2 hm')).trans List.perm_middle.symm
theorem insertUnderL_keys (pk : Nat) (new : Node) : ∀ cs : List Node, (keysL cs).Nodup → pk ∈ keysL cs →
    (keysL (insertUnderL pk new cs)).Perm (new.keys ++ keysL cs)
  | [], _, hm => by simp [keysL_nil] at hm
  | c :: cs, hn, hm => by
    rw [keysL_cons] at hn hm
    rw [List.nodup_append] at hn
    obtain ⟨hc, hcs, hdis⟩ := hn
    rw [insertUnderL, keysL_cons, keysL_cons]
    by_cases h1 : pk ∈ c.keys
    · have hnot : pk ∉ keysL cs := fun h => hdis _ h1 _ h rfl
      rw [insertUnderL_id pk new cs hnot]
      have := Node.insertUnder_keys pk new c hc h1
      rw [← List.append_assoc]
      exact List.Perm.append_right _ this
    · have h2 : pk ∈ keysL cs := by
        rcases List.mem_append.mp hm with h | h
        · exact absurd h h1
        · exact h
      rw [Node.insertUnder_id pk new c h1]
      have := insertUnderL_keys pk new cs hcs h2
      -- c.keys ++ keysL' ~ new.keys ++ (c.keys ++ keysL cs)
      refine (List.Perm.append_left _ this).trans ?_
      rw [← List.append_assoc, ← List.append_assoc]
      exact List.Perm.append_right _ List.perm_append_comm
end

mutual
theorem Node.removeKey_keys (k : Nat) : ∀ n : Node, (n.removeKey k).keys.Sublist n.keys
  | .mk i cs => by
    rw [Node.removeKey, Node.keys_mk, Node.keys_mk]
    exact (removeKeyL_keys k cs).cons_cons _
theorem removeKeyL_keys (k : Nat) : ∀ cs : List Node, (keysL (removeKeyL k cs)).Sublist (keysL cs)
  | [] => by simp [removeKeyL]
  | c :: cs => by
    rw [removeKeyL, keysL_cons]
    split
    · exact (removeKeyL_keys k cs).trans (List.sublist_append_right _ _)
    · rw [keysL_cons]
      exact (Node.removeKey_keys k c).append (removeKeyL_keys k cs)
end

mutual
theorem Node.mapInfo_keys (g : Info → Info) (hg : ∀ i, (g i).key = i.key) : ∀ n : Node, (n.mapInfo g).keys = n.keys
  | .mk i cs => by rw [Node.mapInfo, Node.keys_mk, Node.keys_mk, hg, mapInfoL_keys g hg cs]
theorem mapInfoL_keys (g : Info → Info) (hg : ∀ i, (g i).key = i.key) : ∀ cs : List Node, keysL (mapInfoL g cs) = keysL cs
  | [] => by simp [mapInfoL]
  | c :: cs => by rw [mapInfoL, keysL_cons, keysL_cons, Node.mapInfo_keys g hg c, mapInfoL_keys g hg cs]
end

/-! ## cached parents under the tree updates -/

theorem cacheOKL_append {p : Option Nat} : ∀ (a b : List Node), cacheOKL p (a ++ b) ↔ cacheOKL p a ∧ cacheOKL p b
  | [], b => by simp [cacheOKL]
  | c :: cs, b => by simp [cacheOKL, cacheOKL_append cs b, and_assoc]

theorem cacheOK_newNode (p : Option Nat) (k : Nat) (n t : String) : cacheOK p (newNode k n t p) := by
  simp [newNode, cacheOK, cacheOKL]

mutual
theorem Node.insertUnder_cache (pk k : Nat) (nm t : String) : ∀ (p : Option Nat) (n : Node), cacheOK p n →
    cacheOK p (Node.insertUnder pk (newNode k nm t (some pk)) n)
  | p, .mk i cs, h => by
    rw [cacheOK] at h
    rw [Node.insertUnder]
    have ih := insertUnderL_cache pk k nm t (some i.key) cs h.2
    by_cases hk : i.key = pk
    · simp only [hk, if_true]
      rw [cacheOK, cacheOKL_append]
      refine ⟨h.1, hk ▸ ih, ?_⟩
      simp only [cacheOKL, and_true, hk]
      exact cacheOK_newNode _ _ _ _
    · simp only [hk, if_false]
      rw [cacheOK]
      exact ⟨h.1, ih⟩
theorem insertUnderL_cache (pk k : Nat) (nm t : String) : ∀ (p : Option Nat) (cs : List Node), cacheOKL p cs →
    cacheOKL p (insertUnderL pk (newNode k nm t (some pk)) cs)
  | _, [], _ => by simp [insertUnderL, cacheOKL]
  | p, c :: cs, h => by
    rw [cacheOKL] at h
    rw [insertUnderL, cacheOKL]
    exact ⟨Node.insertUnder_cache pk k nm t p c h.1, insertUnderL_cache pk k nm t p cs h.2⟩
end

mutual
theorem Node.removeKey_cache (k : Nat) : ∀ (p : Option Nat) (n : Node), cacheOK p n → cacheOK p (n.removeKey k)
  | p, .mk i cs, h => by
    rw [cacheOK] at h
    rw [Node.removeKey, cacheOK]
    exact ⟨h.1, removeKeyL_cache k (some i.key) cs h.2⟩
theorem removeKeyL_cache (k : Nat) : ∀ (p : Option Nat) (cs : List Node), cacheOKL p cs → cacheOKL p (removeKeyL k cs)
  | _, [], _ => by simp [removeKeyL, cacheOKL]
  | p, c :: cs, h => by
    rw [cacheOKL] at h
    rw [removeKeyL]
    split
    · exact removeKeyL_cache k p cs h.2
    · rw [cacheOKL]
      exact ⟨Node.removeKey_cache k p c h.1, removeKeyL_cache k p cs h.2⟩
end

mutual
theorem Node.mapInfo_cache (g : Info → Info) (hk : ∀ i, (g i).key = i.key)
    (hc : ∀ i, (g i).cparent = i.cparent ∨ (g i).cparent = none) :
    ∀ (p : Option Nat) (n : Node), cacheOK p n → cacheOK p (n.mapInfo g)
  | p, .mk i cs, h => by
    rw [cacheOK] at h
    rw [Node.mapInfo, cacheOK, hk]
    refine ⟨?_, mapInfoL_cache g hk hc (some i.key) cs h.2⟩
    rcases hc i with e | e
    · rw [e]; exact h.1
    · exact .inl e
theorem mapInfoL_cache (g : Info → Info) (hk : ∀ i, (g i).key = i.key)
    (hc : ∀ i, (g i).cparent = i.cparent ∨ (g i).cparent = none) :
    ∀ (p : Option Nat) (cs : List Node), cacheOKL p cs → cacheOKL p (mapInfoL g cs)
  | _, [], _ => by simp [mapInfoL, cacheOKL]
  | p, c :: cs, h => by
    rw [cacheOKL] at h
    rw [mapInfoL, cacheOKL]
    exact ⟨Node.mapInfo_cache g hk hc p c h.1, mapInfoL_cache g hk hc p cs h.2⟩
end

/-! ## ids of the blocks under block updates -/

theorem flatMap_map_sublist {bs : List Block} {g : Block → Block}
    (hg : ∀ b, (blockKeys (g b)).Sublist (blockKeys b)) :
    ((bs.map g).flatMap blockKeys).Sublist (bs.flatMap blockKeys) := by
  induction bs with
  | nil => simp
  | cons b bs ih => simp only [List.map_cons, List.flatMap_cons]; exact (hg b).append ih

theorem blockKeys_ite_sublist {g : Block → Block} {bk : Nat}
    (hg : ∀ b, (blockKeys (g b)).Sublist (blockKeys b)) (b : Block) :
    (blockKeys (if b.key = bk then g b else b)).Sublist (blockKeys b) := by
  split
  · exact hg b
  · exact List.Sublist.refl _

theorem blockKeys_map_key (bs : List Block) : (bs.map Block.key).Sublist (bs.flatMap blockKeys) := by
  induction bs with
  | nil => simp
  | cons b bs ih =>
    simp only [List.map_cons, List.flatMap_cons, blockKeys, List.cons_append]
    exact (ih.trans (List.sublist_append_right _ _)).cons_cons _

theorem map_ite_id {bs : List Block} {g : Block → Block} {bk : Nat} (h : ∀ b ∈ bs, b.key ≠ bk) :
    bs.map (fun b => if b.key = bk then g b else b) = bs := by
  induction bs with
  | nil => rfl
  | cons b bs ih =>
    simp only [List.map_cons, h b (List.mem_cons_self), if_false]
    rw [ih (fun x hx => h x (List.mem_cons_of_mem _ hx))]

theorem flatMap_upd_new {g : Block → Block} {nk : Nat} : ∀ {bs : List Block} {b : Block},
    (bs.map Block.key).Nodup → b ∈ bs → (blockKeys (g b)).Perm (nk :: blockKeys b) →
    ((bs.map fun x => if x.key = b.key then g x else x).flatMap blockKeys).Perm (nk :: bs.flatMap blockKeys)
  | [], b, _, hb, _ => by simp at hb
  | b0 :: bs, b, hn, hb, hg => by
    rw [List.map_cons, List.nodup_cons] at hn
    by_cases hk : b0.key = b.key
    · have hbb : b0 = b := by
        rcases List.mem_cons.mp hb with h | h
        · exact h.symm
        · exact absurd (List.mem_map.mpr ⟨b, h, hk.symm⟩) hn.1
      subst hbb
      have hid : bs.map (fun x => if x.key = b0.key then g x else x) = bs :=
        map_ite_id (fun x hx e => hn.1 (List.mem_map.mpr ⟨x, hx, e⟩))
      simp only [List.map_cons, if_true, hid, List.flatMap_cons]
      exact List.Perm.append_right _ hg
    · have hb' : b ∈ bs := by
        rcases List.mem_cons.mp hb with h | h
        · exact absurd (h ▸ rfl) hk
        · exact h
      simp only [List.map_cons, hk, if_false, List.flatMap_cons]
      exact (List.Perm.append_left _ (flatMap_upd_new hn.2 hb' hg)).trans List.perm_middle

/-! ## what `lookup` answers -/

theorem lookupBlocks_mem {k : Nat} : ∀ {bs : List Block} {r : Ref}, lookupBlocks k bs = some r →
    match r with
    | .sec _ => False
    | .blk b => b ∈ bs
    | .src b n => b ∈ bs ∧ findL? k b.sources = some n
    | .hold b _ => b ∈ bs
  | [], r, h => by simp [lookupBlocks] at h
  | b0 :: bs, r, h => by
    rw [lookupBlocks] at h
    split at h
    · cases h; exact List.mem_cons_self
    · split at h
      · cases h; exact ⟨List.mem_cons_self, by assumption⟩
      · split at h
        · cases h; exact List.mem_cons_self
        · have := lookupBlocks_mem h
          cases r with
          | sec _ => exact this
          | blk b => exact List.mem_cons_of_mem _ this
          | src b n => exact ⟨List.mem_cons_of_mem _ this.1, this.2⟩
          | hold b _ => exact List.mem_cons_of_mem _ this

theorem lookup_blk {f : File} {k : Nat} {b : Block} (h : f.lookup k = some (.blk b)) : b ∈ f.blocks := by
  rw [File.lookup] at h
  split at h
  · cases h
  · exact lookupBlocks_mem h

theorem lookup_src_mem {f : File} {k : Nat} {b : Block} {n : Node} (h : f.lookup k = some (.src b n)) :
    b ∈ f.blocks ∧ findL? k b.sources = some n := by
  rw [File.lookup] at h
  split at h
  · cases h
  · exact lookupBlocks_mem h

/-! ## the invariant step -/

theorem wf_blocks_nodup {f : File} (hf : WF f) : (f.blocks.map Block.key).Nodup :=
  ((blockKeys_map_key f.blocks).nodup) ((List.nodup_append.mp hf.nodup).2.1)

/-- how the ids of the file change in one step: one fresh id is added, or ids are only removed in place -/
def KeysRel (f f' : File) : Prop :=
  (f'.next = f.next + 1 ∧ (allKeys f').Perm (f.next :: allKeys f)) ∨
  (f'.next = f.next ∧ (allKeys f').Sublist (allKeys f))

theorem wf_of_rel {f f' : File} (hf : WF f) (hr : KeysRel f f') (hc : cacheOKL none f'.sections) : WF f' := by
  rcases hr with ⟨hn, hp⟩ | ⟨hn, hs⟩
  · have hfresh : f.next ∉ allKeys f := fun h => Nat.lt_irrefl _ (hf.bound _ h)
    refine ⟨hp.nodup_iff.mpr (List.nodup_cons.mpr ⟨hfresh, hf.nodup⟩), ?_, hc⟩
    intro k hk
    rcases List.mem_cons.mp (hp.mem_iff.mp hk) with rfl | h
    · omega
    · have := hf.bound k h; omega
  · refine ⟨hs.nodup hf.nodup, ?_, hc⟩
    intro k hk
    have := hf.bound k (hs.subset hk)
    omega

theorem allKeys_updBlock_sub (f : File) (bk : Nat) {g : Block → Block}
    (hg : ∀ b, (blockKeys (g b)).Sublist (blockKeys b)) : (allKeys (f.updBlock bk g)).Sublist (allKeys f) := by
  simp only [allKeys, File.updBlock]
  exact List.Sublist.append (List.Sublist.refl _) (flatMap_map_sublist (blockKeys_ite_sublist hg))

theorem allKeys_updBlock_new {f : File} (hf : WF f) {b : Block} (hb : b ∈ f.blocks) {g : Block → Block} {nk : Nat}
    (hg : (blockKeys (g b)).Perm (nk :: blockKeys b)) :
    (allKeys (f.updBlock b.key g)).Perm (nk :: allKeys f) := by
  simp only [allKeys, File.updBlock]
  exact (List.Perm.append_left _ (flatMap_upd_new (wf_blocks_nodup hf) hb hg)).trans List.perm_middle

theorem holders_map_keys (hs : List Holder) (g : Holder → Holder) (hg : ∀ h, (g h).key = h.key) :
    (hs.map g).map Holder.key = hs.map Holder.key := by
  simp [List.map_map, Function.comp_def, hg]

theorem updHolder_keys (b : Block) (hk : Nat) (g : Holder → Holder) (hg : ∀ h, (g h).key = h.key) :
    blockKeys (b.updHolder hk g) = blockKeys b := by
  simp only [blockKeys, Block.updHolder]
  rw [holders_map_keys]
  intro h
  split
  · exact hg h
  · rfl

theorem updHolder_sub (b : Block) (hk : Nat) (g : Holder → Holder) (hg : ∀ h, (g h).key = h.key) :
    (blockKeys (b.updHolder hk g)).Sublist (blockKeys b) := by
  rw [updHolder_keys b hk g hg]
  exact List.Sublist.refl _

theorem setMd_rel {f f' : File} {e : Nat} {v : Option Nat} (h : f.setMd e v = .ok f') :
    f'.next = f.next ∧ (allKeys f').Sublist (allKeys f) ∧ f'.sections = f.sections := by
  rw [File.setMd] at h
  split at h
  · cases h
    exact ⟨rfl, allKeys_updBlock_sub f _ (fun b => by simp [blockKeys]), rfl⟩
  · cases h
    refine ⟨rfl, allKeys_updBlock_sub f _ (fun b => ?_), rfl⟩
    refine updHolder_sub _ _ _ ?_
    intro h; rfl
  · cases h
    refine ⟨rfl, allKeys_updBlock_sub f _ (fun b => ?_), rfl⟩
    simp only [blockKeys]
    rw [mapInfoL_keys]
    · exact List.Sublist.refl _
    · intro i; split <;> rfl
  · cases h

theorem clearMd_keys (b : Block) (dead : List Nat) : blockKeys (b.clearMd dead) = blockKeys b := by
  simp only [blockKeys, Block.clearMd]
  rw [mapInfoL_keys, holders_map_keys]
  · intro h; rfl
  · intro i; rfl

theorem flatMap_map_eq {bs : List Block} {g : Block → Block} (hg : ∀ b, blockKeys (g b) = blockKeys b) :
    (bs.map g).flatMap blockKeys = bs.flatMap blockKeys := by
  induction bs with
  | nil => rfl
  | cons b bs ih => simp only [List.map_cons, List.flatMap_cons, hg, ih]

theorem filter_flatMap_sublist (bs : List Block) (p : Block → Bool) :
    ((bs.filter p).flatMap blockKeys).Sublist (bs.flatMap blockKeys) := by
  induction bs with
  | nil => simp
  | cons b bs ih =>
    simp only [List.filter_cons, List.flatMap_cons]
    split
    · exact (List.Sublist.refl _).append ih
    · exact ih.trans (List.sublist_append_right _ _)

/-! ## copies (`copy_section(keep_id=False)`) -/

mutual
theorem Node.mapInfo_keys_add (g : Info → Info) (off : Nat) (hg : ∀ i, (g i).key = i.key + off) :
    ∀ n : Node, (n.mapInfo g).keys = n.keys.map (· + off)
  | .mk i cs => by
    rw [Node.mapInfo, Node.keys_mk, Node.keys_mk, hg, mapInfoL_keys_add g off hg cs, List.map_cons]
theorem mapInfoL_keys_add (g : Info → Info) (off : Nat) (hg : ∀ i, (g i).key = i.key + off) :
    ∀ cs : List Node, keysL (mapInfoL g cs) = (keysL cs).map (· + off)
  | [] => by simp [mapInfoL, keysL_nil]
  | c :: cs => by
    rw [mapInfoL, keysL_cons, keysL_cons, Node.mapInfo_keys_add g off hg c, mapInfoL_keys_add g off hg cs,
      List.map_append]
end

/-- the ids of a copy are renewed ids of the original (all of them, or just the top for a shallow copy) -/
theorem copyNode_keys_sub (off : Nat) (nm : String) (ch : Bool) (n : Node) :
    (copyNode off nm ch n).keys.Sublist (n.keys.map (· + off)) := by
  cases n with | mk i cs =>
  simp only [copyNode, Node.info, Node.children, Node.keys_mk, List.map_cons]
  refine List.Sublist.cons_cons _ ?_
  cases ch
  · simp [keysL_nil]
  · simp only [if_true]
    rw [mapInfoL_keys_add _ off (fun i => rfl)]
    exact List.Sublist.refl _

mutual
theorem Node.mapInfo_cache_none (g : Info → Info) (hc : ∀ i, (g i).cparent = none) :
    ∀ (p : Option Nat) (n : Node), cacheOK p (n.mapInfo g)
  | p, .mk i cs => by
    rw [Node.mapInfo, cacheOK]
    exact ⟨.inl (hc i), mapInfoL_cache_none g hc _ cs⟩
theorem mapInfoL_cache_none (g : Info → Info) (hc : ∀ i, (g i).cparent = none) :
    ∀ (p : Option Nat) (cs : List Node), cacheOKL p (mapInfoL g cs)
  | _, [] => by simp [mapInfoL, cacheOKL]
  | p, c :: cs => by
    rw [mapInfoL, cacheOKL]
    exact ⟨Node.mapInfo_cache_none g hc p c, mapInfoL_cache_none g hc p cs⟩
end

/-- no handle into a copy carries a `_sec_parent`: fine below any parent -/
theorem copyNode_cache (off : Nat) (nm : String) (ch : Bool) (n : Node) (p : Option Nat) :
    cacheOK p (copyNode off nm ch n) := by
  cases n with | mk i cs =>
  simp only [copyNode, Node.info, Node.children]
  rw [cacheOK]
  refine ⟨.inl rfl, ?_⟩
  cases ch
  · simp [cacheOKL]
  · simp only [if_true]
    exact mapInfoL_cache_none _ (fun i => rfl) _ _

mutual
theorem Node.insertUnder_cache' (pk : Nat) (new : Node) (hnew : ∀ p, cacheOK p new) :
    ∀ (p : Option Nat) (n : Node), cacheOK p n → cacheOK p (Node.insertUnder pk new n)
  | p, .mk i cs, h => by
    rw [cacheOK] at h
    rw [Node.insertUnder]
    have ih := insertUnderL_cache' pk new hnew (some i.key) cs h.2
    by_cases hk : i.key = pk
    · simp only [hk, if_true]
      rw [cacheOK, cacheOKL_append]
      refine ⟨h.1, hk ▸ ih, ?_⟩
      simp only [cacheOKL, and_true]
      exact hnew _
    · simp only [hk, if_false]
      rw [cacheOK]
      exact ⟨h.1, ih⟩
theorem insertUnderL_cache' (pk : Nat) (new : Node) (hnew : ∀ p, cacheOK p new) :
    ∀ (p : Option Nat) (cs : List Node), cacheOKL p cs → cacheOKL p (insertUnderL pk new cs)
  | _, [], _ => by simp [insertUnderL, cacheOKL]
  | p, c :: cs, h => by
    rw [cacheOKL] at h
    rw [insertUnderL, cacheOKL]
    exact ⟨Node.insertUnder_cache' pk new hnew p c h.1, insertUnderL_cache' pk new hnew p cs h.2⟩
end

mutual
theorem Node.keys_sublist_of_mem {x : Node} : ∀ n : Node, x ∈ n.nodes → x.keys.Sublist n.keys
  | .mk i cs, h => by
    rw [Node.nodes, List.mem_cons] at h
    rcases h with rfl | h
    · exact List.Sublist.refl _
    · rw [Node.keys_mk]
      exact (keysL_sublist_of_mem cs h).trans (List.sublist_cons_self _ _)
theorem keysL_sublist_of_mem {x : Node} : ∀ cs : List Node, x ∈ nodesL cs → x.keys.Sublist (keysL cs)
  | [], h => by simp [nodesL] at h
  | c :: cs, h => by
    rw [nodesL, List.mem_append] at h
    rw [keysL_cons]
    rcases h with h | h
    · exact (Node.keys_sublist_of_mem c h).trans (List.sublist_append_left _ _)
    · exact (keysL_sublist_of_mem cs h).trans (List.sublist_append_right _ _)
end

/-- a block of renewed ids joins the file: still unique, still below the (doubled) id supply -/
theorem wf_of_copy {f f' : File} (hf : WF f) {n : Node} (hn : n ∈ nodesL f.sections) {new : List Nat}
    (hsub : new.Sublist (n.keys.map (· + f.next))) (hnext : f'.next = f.next + f.next)
    (hp : (allKeys f').Perm (new ++ allKeys f)) (hc : cacheOKL none f'.sections) : WF f' := by
  have hnk : n.keys.Sublist (allKeys f) :=
    (keysL_sublist_of_mem f.sections hn).trans (List.sublist_append_left _ _)
  have hmapnd : (n.keys.map (· + f.next)).Nodup :=
    List.Pairwise.map _ (fun a b (h : a ≠ b) (e : a + f.next = b + f.next) => h (by omega)) (hnk.nodup hf.nodup)
  have hrange : ∀ k ∈ new, f.next ≤ k ∧ k < f.next + f.next := by
    intro k hk
    obtain ⟨k0, hk0, rfl⟩ := List.mem_map.mp (hsub.subset hk)
    have := hf.bound k0 (hnk.subset hk0)
    omega
  refine ⟨hp.nodup_iff.mpr (List.nodup_append.mpr ⟨hsub.nodup hmapnd, hf.nodup, ?_⟩), ?_, hc⟩
  · intro a ha b hb e
    have h1 := (hrange a ha).1
    have h2 := hf.bound b hb
    omega
  · intro k hk
    rcases List.mem_append.mp (hp.mem_iff.mp hk) with h | h
    · have := (hrange k h).2; omega
    · have := hf.bound k h; omega

theorem wf_step {f f' : File} {op : Op} {r : Option Nat} (hf : WF f) (h : step f op = .ok (f', r)) : WF f' := by
  have hsec := wf_sections hf
  cases op with
  | createBlock name type =>
    simp only [step] at h
    split at h
    · cases h
    · cases h
      refine wf_of_rel hf (.inl ⟨rfl, ?_⟩) hf.cache
      simp only [allKeys, List.flatMap_append, List.flatMap_cons, List.flatMap_nil, blockKeys, keysL_nil,
        List.map_nil, List.append_nil]
      rw [← List.append_assoc]
      exact List.perm_append_comm
  | createSection parent name type =>
    cases parent with
    | none =>
      simp only [step] at h
      split at h
      · cases h
      · cases h
        refine wf_of_rel hf (.inl ⟨rfl, ?_⟩) ?_
        · simp only [allKeys, keysL_append, keysL_newNode]
          rw [List.append_assoc]
          exact List.perm_middle
        · exact (cacheOKL_append _ _).mpr ⟨hf.cache, by simp [cacheOKL]; exact cacheOK_newNode _ _ _ _⟩
    | some pk =>
      simp only [step] at h
      split at h
      · cases h
      · rename_i p hp
        split at h
        · cases h
        · cases h
          have hmem : pk ∈ keysL f.sections := by
            obtain ⟨hm, hk⟩ := (findL?_spec pk f.sections).1 p hp
            exact List.mem_map.mpr ⟨p, hm, hk⟩
          refine wf_of_rel hf (.inl ⟨rfl, ?_⟩) (insertUnderL_cache _ _ _ _ _ _ hf.cache)
          simp only [allKeys]
          have := insertUnderL_keys pk (newNode f.next name type (some pk)) f.sections hsec hmem
          rw [newNode_keys] at this
          exact List.Perm.append_right _ this
  | createSource pk name type =>
    simp only [step] at h
    split at h
    · rename_i b hl
      split at h
      · cases h
      · cases h
        have hb := lookup_blk hl
        refine wf_of_rel hf (.inl ⟨rfl, ?_⟩) hf.cache
        refine allKeys_updBlock_new hf hb ?_
        simp only [blockKeys, keysL_append, keysL_newNode]
        rw [List.append_assoc]
        exact ((List.Perm.cons _ List.perm_middle).trans (List.Perm.swap _ _ _))
    · rename_i b p hl
      split at h
      · cases h
      · cases h
        obtain ⟨hb, hfind⟩ := lookup_src_mem hl
        have hmem : pk ∈ keysL b.sources := by
          obtain ⟨hm, hk⟩ := (findL?_spec pk b.sources).1 p hfind
          exact List.mem_map.mpr ⟨p, hm, hk⟩
        refine wf_of_rel hf (.inl ⟨rfl, ?_⟩) hf.cache
        refine allKeys_updBlock_new hf hb ?_
        simp only [blockKeys]
        have := insertUnderL_keys pk (newNode f.next name type none) b.sources (wf_block_sources hf hb) hmem
        rw [newNode_keys] at this
        exact ((List.Perm.cons _ (List.Perm.append_right _ this)).trans (List.Perm.swap _ _ _))
    · cases h
  | createHolder bk kind name type =>
    simp only [step] at h
    split at h
    · rename_i b hl
      split at h
      · cases h
      · cases h
        have hb := lookup_blk hl
        refine wf_of_rel hf (.inl ⟨rfl, ?_⟩) hf.cache
        refine allKeys_updBlock_new hf hb ?_
        simp only [blockKeys, List.map_append, List.map_cons, List.map_nil]
        rw [← List.append_assoc]
        exact ((List.Perm.cons _ List.perm_append_comm).trans (List.Perm.swap _ _ _))
    · cases h
  | setMetadata e s =>
    simp only [step] at h
    split at h
    · cases h
    · cases hs : f.setMd e (some s) with
      | error err => rw [hs] at h; cases h
      | ok f2 =>
        rw [hs] at h
        cases h
        obtain ⟨h1, h2, h3⟩ := setMd_rel hs
        exact wf_of_rel hf (.inr ⟨h1, h2⟩) (h3 ▸ hf.cache)
  | delMetadata e =>
    simp only [step] at h
    cases hs : f.setMd e none with
    | error err => rw [hs] at h; cases h
    | ok f2 =>
      rw [hs] at h
      cases h
      obtain ⟨h1, h2, h3⟩ := setMd_rel hs
      exact wf_of_rel hf (.inr ⟨h1, h2⟩) (h3 ▸ hf.cache)
  | linkSource hk s =>
    simp only [step] at h
    split at h
    · split at h
      · cases h
        refine wf_of_rel hf (.inr ⟨rfl, allKeys_updBlock_sub f _ (fun b => ?_)⟩) hf.cache
        refine updHolder_sub _ _ _ ?_
        intro h; rfl
      · cases h
    · cases h
  | unlinkSource hk s =>
    simp only [step] at h
    split at h
    · split at h
      · cases h
        refine wf_of_rel hf (.inr ⟨rfl, allKeys_updBlock_sub f _ (fun b => ?_)⟩) hf.cache
        refine updHolder_sub _ _ _ ?_
        intro h; rfl
      · cases h
    · cases h
  | delete k =>
    simp only [step] at h
    split at h
    · cases h
      refine wf_of_rel hf (.inr ⟨rfl, ?_⟩) (removeKeyL_cache _ _ _ hf.cache)
      simp only [allKeys]
      rw [flatMap_map_eq (fun b => clearMd_keys b _)]
      exact (removeKeyL_keys _ _).append (List.Sublist.refl _)
    · cases h
      refine wf_of_rel hf (.inr ⟨rfl, allKeys_updBlock_sub f _ (fun b => ?_)⟩) hf.cache
      simp only [blockKeys]
      rw [holders_map_keys]
      · exact ((removeKeyL_keys _ _).append (List.Sublist.refl _)).cons_cons _
      · intro h; rfl
    · cases h
      refine wf_of_rel hf (.inr ⟨rfl, allKeys_updBlock_sub f _ (fun b => ?_)⟩) hf.cache
      simp only [blockKeys]
      exact ((List.Sublist.refl _).append ((List.filter_sublist).map _)).cons_cons _
    · cases h
      refine wf_of_rel hf (.inr ⟨rfl, ?_⟩) hf.cache
      simp only [allKeys]
      exact (List.Sublist.refl _).append (filter_flatMap_sublist _ _)
    · cases h
  | reopen =>
    simp only [step] at h
    cases h
    have hc : cacheOKL none (mapInfoL (fun i => { i with cparent := none }) f.sections) := by
      refine mapInfoL_cache _ ?_ ?_ _ _ hf.cache
      · intro i; rfl
      · intro i; exact .inr rfl
    refine wf_of_rel hf (.inr ⟨rfl, ?_⟩) hc
    simp only [allKeys]
    rw [mapInfoL_keys]
    · exact List.Sublist.refl _
    · intro i; rfl
  | copySection s dest name children =>
    simp only [step] at h
    split at h
    · cases h
    · rename_i n hn
      have hnm : n ∈ nodesL f.sections := ((findL?_spec s f.sections).1 n hn).1
      generalize (if name.isEmpty = true then n.name else name) = nm at h
      cases dest with
      | none =>
        simp only at h
        split at h
        · cases h
        · cases h
          refine wf_of_copy hf hnm (copyNode_keys_sub f.next nm children n) rfl ?_ ?_
          · simp only [allKeys, keysL_append, keysL_cons, keysL_nil, List.append_nil]
            rw [← List.append_assoc]
            exact List.Perm.append_right _ List.perm_append_comm
          · exact (cacheOKL_append _ _).mpr ⟨hf.cache, by simp only [cacheOKL, and_true]; exact copyNode_cache _ _ _ _ _⟩
      | some d =>
        simp only at h
        split at h
        · cases h
        · rename_i p hp
          split at h
          · cases h
          · cases h
            have hmem : d ∈ keysL f.sections := by
              obtain ⟨hm, hk⟩ := (findL?_spec d f.sections).1 p hp
              exact List.mem_map.mpr ⟨p, hm, hk⟩
            refine wf_of_copy hf hnm (copyNode_keys_sub f.next nm children n) rfl ?_
              (insertUnderL_cache' _ _ (copyNode_cache _ _ _ _) _ _ hf.cache)
            simp only [allKeys]
            rw [← List.append_assoc]
            exact List.Perm.append_right _ (insertUnderL_keys d _ f.sections hsec hmem)

theorem wf_empty : WF ({} : File) := ⟨by simp [allKeys, keysL_nil], by simp [allKeys, keysL_nil], by simp [cacheOKL]⟩

theorem wf_apply {f : File} (hf : WF f) (op : Op) : WF (apply f op) := by
  rw [apply]
  split
  · rename_i f' r h
    exact wf_step hf h
  · exact hf

theorem wf_run : ∀ (ops : List Op) {f : File}, WF f → WF (run f ops)
  | [], _, hf => hf
  | op :: ops, f, hf => by
    rw [run, List.foldl_cons]
    exact wf_run ops (wf_apply hf op)

theorem wf_of_reachable {f : File} (h : Reachable f) : WF f := by
  obtain ⟨ops, rfl⟩ := h
  exact wf_run ops wf_empty

end Nix.Tree
