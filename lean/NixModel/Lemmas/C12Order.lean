import NixModel.Pure.Order

/-! `safePath` is sound for the abstract execution: a refused run of a safe path ends in the file it started from. -/
namespace Nix.Order

/-- once an unprotected write has happened, a safe path cannot be refused any more -/
theorem safe_dirty_not_refused (evs : List Ev) : ∀ (tr : Option Bool) (orc : List Bool) (file : Nat) (ts : Option Nat),
    safeFrom true tr evs = true → (run evs orc file ts).2 = false := by
  induction evs with
  | nil => intro tr orc file ts _; rfl
  | cons ev r ih =>
    intro tr orc file ts h
    cases ev with
    | check => simp [safeFrom] at h
    | raise => simp [safeFrom] at h
    | atomic => simp [safeFrom] at h
    | write =>
      cases tr with
      | none => exact ih none orc (file + 1) ts (by simpa [safeFrom] using h)
      | some b => exact ih (some true) orc (file + 1) ts (by simpa [safeFrom] using h)
    | tryBegin =>
      cases tr with
      | none => exact ih (some false) orc file (some file) (by simpa [safeFrom] using h)
      | some b => simp [safeFrom] at h
    | tryEnd => exact ih none orc file none (by simpa [safeFrom] using h)

/-- the invariant of a clean prefix: outside a protected section the file is the original one; inside, the section
has saved the original one -/
def Clean (f0 : Nat) (tr : Option Bool) (file : Nat) (ts : Option Nat) : Prop :=
  match tr with
  | none => ts = none ∧ file = f0
  | some w => ts = some f0 ∧ (w = false → file = f0)

theorem safe_clean_refused (f0 : Nat) (evs : List Ev) : ∀ (tr : Option Bool) (orc : List Bool) (file : Nat)
    (ts : Option Nat), safeFrom false tr evs = true → Clean f0 tr file ts → (run evs orc file ts).2 = true →
    (run evs orc file ts).1 = f0 := by
  induction evs with
  | nil => intro tr orc file ts _ _ h; simp [run] at h
  | cons ev r ih =>
    intro tr orc file ts hs hc hr
    have restore : ts.getD file = f0 := by
      cases tr with
      | none => obtain ⟨h1, h2⟩ := hc; subst h1; simpa using h2
      | some b => have : ts = some f0 := hc.1; subst this; rfl
    cases ev with
    | raise => simpa [run] using restore
    | check =>
      have hs' : safeFrom false tr r = true := by simpa [safeFrom] using hs
      cases orc with
      | nil => exact ih tr [] file ts hs' hc (by simpa [run] using hr)
      | cons b o =>
        cases b with
        | true => simpa [run] using restore
        | false => exact ih tr o file ts hs' hc (by simpa [run] using hr)
    | write =>
      cases tr with
      | none =>
        have hd : safeFrom true none r = true := by simpa [safeFrom] using hs
        have := safe_dirty_not_refused r none orc (file + 1) ts hd
        simp [run, this] at hr
      | some b =>
        have hs' : safeFrom false (some true) r = true := by simpa [safeFrom] using hs
        exact ih (some true) orc (file + 1) ts hs' ⟨hc.1, by simp⟩ (by simpa [run] using hr)
    | atomic =>
      cases orc with
      | nil =>
        cases tr with
        | none =>
          have hd : safeFrom true none r = true := by simpa [safeFrom] using hs
          have := safe_dirty_not_refused r none [] (file + 1) ts hd
          simp [run, this] at hr
        | some b =>
          have hs' : safeFrom false (some true) r = true := by simpa [safeFrom] using hs
          exact ih (some true) [] (file + 1) ts hs' ⟨hc.1, by simp⟩ (by simpa [run] using hr)
      | cons b o =>
        cases b with
        | true => simpa [run] using restore
        | false =>
          cases tr with
          | none =>
            have hd : safeFrom true none r = true := by simpa [safeFrom] using hs
            have := safe_dirty_not_refused r none o (file + 1) ts hd
            simp [run, this] at hr
          | some b =>
            have hs' : safeFrom false (some true) r = true := by simpa [safeFrom] using hs
            exact ih (some true) o (file + 1) ts hs' ⟨hc.1, by simp⟩ (by simpa [run] using hr)
    | tryBegin =>
      cases tr with
      | none =>
        have hs' : safeFrom false (some false) r = true := by simpa [safeFrom] using hs
        have : file = f0 := hc.2
        subst this
        exact ih (some false) orc file (some file) hs' ⟨rfl, fun _ => rfl⟩ (by simpa [run] using hr)
      | some b => simp [safeFrom] at hs
    | tryEnd =>
      cases tr with
      | none =>
        have hs' : safeFrom false none r = true := by simpa [safeFrom] using hs
        exact ih none orc file none hs' ⟨rfl, hc.2⟩ (by simpa [run] using hr)
      | some b =>
        cases b with
        | false =>
          have hs' : safeFrom false none r = true := by simpa [safeFrom] using hs
          exact ih none orc file none hs' ⟨rfl, hc.2 rfl⟩ (by simpa [run] using hr)
        | true =>
          have hd : safeFrom true none r = true := by simpa [safeFrom] using hs
          have := safe_dirty_not_refused r none orc file none hd
          simp [run, this] at hr

/-- **soundness of the discipline**: a refused run of a safe path ends in the file it started from -/
theorem safePath_refused_unchanged (p : List Ev) (orc : List Bool) (f0 : Nat) (hs : safePath p = true)
    (hr : (run p orc f0 none).2 = true) : (run p orc f0 none).1 = f0 :=
  safe_clean_refused f0 p none orc f0 none hs ⟨rfl, rfl⟩ hr

end Nix.Order
