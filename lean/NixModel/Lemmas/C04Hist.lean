import NixModel.Lemmas.C04Unlink
import NixModel.Lemmas.StoreWF

/-!
# C04 — the frame of a deletion

`subtreeKeys` collects only entities at or below the start (`bfsKeys_sound`, `Lemmas/C04Bfs`), and
`delete_all` removes links by target *object*: it therefore removes links to the deleted entity / its
subtree *only* — on every graph, in particular when other objects (id-keeping copies) carry the same
`entity_id`.
-/
namespace Nix.Store.C04
open Nix.Store Nix.Store.Graph

/-- `d` is the entity `k` addressed by a `del c[key]`, or — for section / source containers — lies
in the subtree below it -/
def InSub (g : Graph) (c : Cont) (k d : Nat) : Prop :=
  match c.info.flavour with
  | .sections => Desc g "sections" k d
  | .sources => Desc g "sources" k d
  | _ => d = k

theorem inSub_self (g : Graph) (c : Cont) (k : Nat) : InSub g c k k := by
  unfold InSub
  cases c.info.flavour <;> first | exact .refl k | rfl

/-- the objects handed to `delete_all` are the entity / lie in its subtree … -/
theorem delKeys_sound (g : Graph) (c : Cont) (k d : Nat) (h : d ∈ delKeys g c k) : InSub g c k d := by
  unfold delKeys at h
  unfold InSub
  cases hf : c.info.flavour <;> simp only [hf] at h ⊢
  case sections => exact subtreeKeys_sound g _ k d h
  case sources =>
    rcases List.mem_append.mp h with h | h
    · exact subtreeKeys_sound g _ k d h
    · simp only [List.mem_singleton] at h
      subst h; exact .refl _
  all_goals
    simpa using h

/-- … and the entity itself is always among them -/
theorem delKeys_self (g : Graph) (c : Cont) (k : Nat) : k ∈ delKeys g c k := by
  unfold delKeys
  cases c.info.flavour <;> simp [subtreeKeys_self g _ k]

/-- **frame**: a link whose target is not the deleted entity (nor, for sections / sources, in its
subtree) survives `delete_all` of the collected objects — on every graph, whatever ids its objects
carry -/
theorem frame_keys (g : Graph) (c : Cont) (k : Nat)
    (p : Nat) (l : String × Nat) (hl : l ∈ g.links p) (hnot : ¬ InSub g c k l.2) :
    l ∈ (g.deleteObjs (delKeys g c k)).links p := by
  rw [mem_deleteObjs_links]
  refine ⟨hl, ?_⟩
  unfold doomed
  simp only [List.contains_eq_mem, decide_eq_false_iff_not]
  exact fun hin => hnot (delKeys_sound g c k l.2 hin)

/-! ## a sufficient syntactic condition for the uuid4-freshness proviso of `Lemmas/StoreWF` -/

theorem idStr_toList (m : Nat) :
    (Nix.Store.Lemmas.idStr m).toList = 'i' :: 'd' :: ':' :: (toString m).toList := by
  unfold Nix.Store.Lemmas.idStr
  simp [String.toList_append]
  rfl

theorem ne_idStr (n : String) (h : n.toList.head? ≠ some 'i') (m : Nat) : n ≠ Nix.Store.Lemmas.idStr m := by
  intro e
  apply h
  rw [e, idStr_toList]
  rfl

/-- a history none of whose new names starts with the letter `i` satisfies the proviso -/
theorem freshHist_of_names (ops : List Op)
    (h : ∀ op ∈ ops, ∀ n, Nix.Store.Lemmas.Op.newName op = some n → n.toList.head? ≠ some 'i') (g : Graph) :
    Nix.Store.Lemmas.FreshHist g ops := by
  induction ops generalizing g with
  | nil => trivial
  | cons op rest ih =>
    refine ⟨?_, ih (fun o ho => h o (List.mem_cons_of_mem _ ho)) _⟩
    intro n hn m _
    exact ne_idStr n (h op (by simp) n hn) m

end Nix.Store.C04
