import NixModel.Lemmas.C04Unlink
import NixModel.Lemmas.StoreWF

/-!
# C04 — soundness of the id collection; the frame when ids are pairwise distinct

`subtreeIds` collects only ids of entities at or below the start (`bfsIds_sound`). When no two
objects of the file share an `entity_id` — true of every file built by a history without
id-keeping copies (`Nix.Store.Lemmas.WF.ids_distinct`) — `delete_all` therefore removes links to
the deleted entity / its subtree *only*.
-/
namespace Nix.Store.C04
open Nix.Store Nix.Store.Graph

theorem bfsIds_sound (g : Graph) (sub : String) (fuel : Nat) (queue : List Nat) (acc : List String)
    (i : String) (h : i ∈ bfsIds g sub fuel queue acc) :
    i ∈ acc ∨ ∃ q ∈ queue, ∃ d, Desc g sub q d ∧ g.entityId d = some i := by
  induction fuel generalizing queue acc with
  | zero => left; simpa [bfsIds] using h
  | succ fuel ih =>
    cases queue with
    | nil => left; simpa [bfsIds] using h
    | cons k queue =>
      rw [bfsIds_step] at h
      rcases ih _ _ h with hacc | ⟨q, hq, d, hd, hi⟩
      · cases hk : g.entityId k with
        | none => left; simpa [hk] using hacc
        | some j =>
          simp only [hk, List.mem_append, List.mem_singleton] at hacc
          rcases hacc with hacc | hij
          · left; exact hacc
          · right; exact ⟨k, by simp, k, .refl k, by rw [hk, hij]⟩
      · right
        rcases List.mem_append.mp hq with hq | hq
        · exact ⟨q, List.mem_cons_of_mem _ hq, d, hd, hi⟩
        · exact ⟨k, by simp, d, .step hq hd, hi⟩

theorem subtreeIds_sound (g : Graph) (sub : String) (k : Nat) (i : String) (h : i ∈ subtreeIds g sub k) :
    ∃ d, Desc g sub k d ∧ g.entityId d = some i := by
  rcases bfsIds_sound g sub _ [k] [] i h with h | ⟨q, hq, d, hd, hi⟩
  · cases h
  · simp only [List.mem_singleton] at hq
    subst hq
    exact ⟨d, hd, hi⟩

/-- `d` is the entity `k` addressed by a `del c[key]`, or — for section / source containers — lies
in the subtree below it -/
def InSub (g : Graph) (c : Cont) (k d : Nat) : Prop :=
  match c.info.flavour with
  | .sections => Desc g "sections" k d
  | .sources => Desc g "sources" k d
  | _ => d = k

theorem inSub_self (g : Graph) (c : Cont) (k : Nat) : InSub g c k k := by
  unfold InSub
  cases c.info.flavour <;> first | exact .refl k | rfl

theorem delIds_sound (g : Graph) (c : Cont) (k : Nat) (i : String) (h : i ∈ delIds g c k) :
    ∃ d, InSub g c k d ∧ g.entityId d = some i := by
  unfold delIds at h
  unfold InSub
  cases hf : c.info.flavour <;> simp only [hf] at h ⊢
  case sections => exact subtreeIds_sound g _ k i h
  case sources =>
    rcases List.mem_append.mp h with h | h
    · exact subtreeIds_sound g _ k i h
    · cases hk : g.entityId k with
      | none => simp [hk] at h
      | some j =>
        simp only [hk, List.mem_singleton] at h
        exact ⟨k, .refl k, by rw [hk, h]⟩
  all_goals
    cases hk : g.entityId k with
    | none => simp [hk] at h
    | some j =>
      simp only [hk, List.mem_singleton] at h
      exact ⟨k, rfl, by rw [hk, h]⟩

/-- **frame under distinct ids**: a link whose target is not the deleted entity (nor, for sections /
sources, in its subtree) survives `delete_all` of the collected ids -/
theorem frame_distinct (g : Graph) (c : Cont) (k : Nat)
    (hdist : ∀ a b i, g.entityId a = some i → g.entityId b = some i → a = b)
    (p : Nat) (l : String × Nat) (hl : l ∈ g.links p) (hnot : ¬ InSub g c k l.2) :
    l ∈ (g.deleteAll (delIds g c k)).links p := by
  rw [mem_deleteAll_links]
  refine ⟨hl, ?_⟩
  unfold doomed
  cases hi : g.entityId l.2 with
  | none => rfl
  | some i =>
    simp only [List.contains_eq_mem, decide_eq_false_iff_not]
    intro hin
    obtain ⟨d, hd, hid⟩ := delIds_sound g c k i hin
    have := hdist l.2 d i hi hid
    rw [this] at hnot
    exact hnot hd

/-! ## a sufficient syntactic condition for the uuid4-freshness proviso of `Lemmas/StoreWF` -/

theorem idStr_toList (m : Nat) :
    (Nix.Store.Lemmas.idStr m).toList = 'i' :: 'd' :: ':' :: (toString m).toList := by
  unfold Nix.Store.Lemmas.idStr
  simp [String.toList_append]
  rfl

theorem ne_idStr (n : String) (h : n.toList.head? ≠ some 'i') (m : Nat) : n ≠ Nix.Store.Lemmas.idStr m := by
  intro e
  apply h
  rw [e, idStr_toList]
  rfl

/-- a history none of whose new names starts with the letter `i` satisfies the proviso -/
theorem freshHist_of_names (ops : List Op)
    (h : ∀ op ∈ ops, ∀ n, Nix.Store.Lemmas.Op.newName op = some n → n.toList.head? ≠ some 'i') (g : Graph) :
    Nix.Store.Lemmas.FreshHist g ops := by
  induction ops generalizing g with
  | nil => trivial
  | cons op rest ih =>
    refine ⟨?_, ih (fun o ho => h o (List.mem_cons_of_mem _ ho)) _⟩
    intro n hn m _
    exact ne_idStr n (h op (by simp) n hn) m

end Nix.Store.C04
