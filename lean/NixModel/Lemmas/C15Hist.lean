import NixModel.Lemmas.C15Read

/-! Helper lemmas for C15: histories of calibration operations. -/
namespace Nix.Poly.Lemmas
open Nix.Poly

/-- the only operation that stores array elements -/
def isWrite : Op → Bool
  | .write _ => true
  | _ => false

theorem setCoeffs_frame (a a' : Arr) (c : CoeffArg) (h : setCoeffs a c = .ok a') :
    a'.raw = a.raw ∧ a'.shape = a.shape ∧ a'.dtype = a.dtype ∧ a'.origin = a.origin := by
  cases c with
  | none => simp [setCoeffs] at h; subst h; simp
  | scalar x => simp [setCoeffs] at h
  | seq cs =>
    simp only [setCoeffs] at h
    split at h <;> (injection h with h; subst h; simp)
  | notFlat n =>
    simp only [setCoeffs] at h
    split at h
    · injection h with h; subst h; simp
    · simp at h
  | badElems c => simp [setCoeffs] at h

theorem setOrigin_frame (a a' : Arr) (o : OriginArg) (h : setOrigin a o = .ok a') :
    a'.raw = a.raw ∧ a'.shape = a.shape ∧ a'.dtype = a.dtype ∧ a'.coeffs = a.coeffs := by
  cases o with
  | none => simp [setOrigin] at h; subst h; simp
  | notNumber => simp [setOrigin] at h
  | num x => simp [setOrigin] at h; subst h; simp

/-- a step that is not a write leaves the stored elements, the shape and the element type alone -/
theorem step_frame (a : Arr) (op : Op) (h : isWrite op = false) :
    (step a op).1.raw = a.raw ∧ (step a op).1.shape = a.shape ∧ (step a op).1.dtype = a.dtype := by
  cases op with
  | setCoeffs c =>
    simp only [step]
    cases hc : setCoeffs a c with
    | error e => simp
    | ok a' => have := setCoeffs_frame a a' c hc; simp [this]
  | setOrigin o =>
    simp only [step]
    cases hc : setOrigin a o with
    | error e => simp
    | ok a' => have := setOrigin_frame a a' o hc; simp [this]
  | read ix => simp only [step]; split <;> simp
  | readView w u => simp only [step]; split <;> simp
  | getCoeffs => simp [step]
  | getOrigin => simp [step]
  | rawDump => simp [step]
  | linkTicks i => simp only [step]; split <;> simp
  | write v => simp [isWrite] at h
  | reopen => simp [step]

/-- a write step keeps shape and element type, and its effect on `raw` depends on `raw`'s length only -/
theorem step_write (a : Arr) (v : List Rat) :
    (step a (.write v)).1.shape = a.shape ∧ (step a (.write v)).1.dtype = a.dtype ∧
    (step a (.write v)).1.raw = (if v.length = a.raw.length then v else a.raw) := by
  simp only [step]
  split <;> simp_all

theorem exec_nil (a : Arr) : exec a [] = a := rfl

theorem exec_cons (a : Arr) (op : Op) (ops : List Op) : exec a (op :: ops) = exec (step a op).1 ops := by
  simp [exec, run]

theorem exec_append (a : Arr) (xs ys : List Op) : exec a (xs ++ ys) = exec (exec a xs) ys := by
  induction xs generalizing a with
  | nil => rfl
  | cons x xs ih => simp [exec_cons, ih]

/-- shape and element type never change -/
theorem exec_shape_dtype (a : Arr) (ops : List Op) :
    (exec a ops).shape = a.shape ∧ (exec a ops).dtype = a.dtype := by
  induction ops generalizing a with
  | nil => simp [exec_nil]
  | cons op ops ih =>
    rw [exec_cons]
    have h := ih (step a op).1
    by_cases hw : isWrite op = true
    · cases op <;> simp [isWrite] at hw
      rename_i v
      have := step_write a v
      simp [h, this]
    · have := step_frame a op (by simpa using hw)
      simp [h, this]

/-- the stored elements after a history are those after its writes alone -/
theorem exec_raw_filter (a b : Arr) (ops : List Op) (hab : a.raw = b.raw) :
    (exec a ops).raw = (exec b (ops.filter isWrite)).raw := by
  induction ops generalizing a b with
  | nil => simpa [exec_nil] using hab
  | cons op ops ih =>
    by_cases hw : isWrite op = true
    · cases op <;> simp [isWrite] at hw
      rename_i v
      rw [List.filter_cons_of_pos (by simp [isWrite]), exec_cons, exec_cons]
      apply ih
      rw [(step_write a v).2.2, (step_write b v).2.2, hab]
    · have hw' : isWrite op = false := by simpa using hw
      rw [List.filter_cons_of_neg (by simp [hw']), exec_cons]
      apply ih
      rw [(step_frame a op hw').1, hab]

end Nix.Poly.Lemmas
