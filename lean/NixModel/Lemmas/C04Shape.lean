import NixModel.Generated.DeleteShape
import NixModel.Lemmas.C04Del

/-!
# C04 — the deletion code as the translator reads it *is* the hand-written model

`Generated/DeleteShape.lean` holds the statement lists of nixio's deletion paths (see
`Store/DelShape.lean` for their meaning). Here: for all graphs, containers and keys the meaning of
the generated constants equals `contDel`, `Graph.deleteObjs`, `h5Delete`, `setRole … none` and
`subtreeKeys`, and the container table equals `containerInfo`.
-/
namespace Nix.Store.C04
open Nix.Store Nix.Store.Graph Nix.Store.DelShape

/-! ## general facts about the interpreter -/

theorem h5DeleteP_one (g : Graph) (grp parent : Nat) (lname : String) (depth : Nat) (x : String) (b : Bool) :
    h5DeleteP 1 g grp parent lname depth x b = h5Delete g grp parent lname depth x b := rfl

theorem contGet_ent (g : Graph) (c : Cont) (k : Nat) : contGet g c (.ent k) = .error .typeError := rfl

theorem containerInfo_feature {ok cn : String} {info : CInfo} (h : containerInfo ok cn = some info)
    (hi : info.item = "feature") : info.flavour = .features := by
  unfold containerInfo at h
  split at h <;> first | (cases h; first | rfl | (revert hi; decide)) | cases h

/-- `if not isinstance(item, self._itemclass): raise TypeError` on a resolved item -/
theorem exec_require (P : H5DeleteParams) (c : Cont) (tail : List DStmt) (g : Graph) (k : Nat) (ids : List Nat) :
    exec P c (.requireItem :: tail) g (.ent k) ids =
      if kindOf g k != c.info.item then .error .typeError else exec P c tail g (.ent k) ids := by
  simp only [exec, isInst]
  by_cases h : kindOf g k = c.info.item <;> simp [h]

/-- the first statement of every `__delitem__`: the key is resolved through `self[item]` unless it
already is an entity (`delTarget`) -/
theorem exec_resolve (P : H5DeleteParams) (c : Cont) (cs : List Cls) (tail : List DStmt) (g : Graph) (key : Key)
    (hcs : cs = [.entity, .itemclass] ∨ (cs = [.entity] ∧ c.info.item ≠ "feature")) :
    exec P c (.resolveUnless cs :: .requireItem :: tail) g key [] =
      match delTarget g c key with
      | .error e => .error e
      | .ok k => exec P c (.requireItem :: tail) g (.ent k) [] := by
  cases key with
  | ent k =>
    simp only [delTarget]
    rw [exec]
    split
    · rfl
    · rename_i hany
      rw [contGet_ent, exec_require]
      have : kindOf g k ≠ c.info.item := by
        rcases hcs with h | ⟨h, hne⟩
        · subst h
          simp only [List.any_cons, List.any_nil, isInst, Bool.or_false, Bool.or_eq_true, not_or,
            Bool.not_eq_true] at hany
          simpa using hany.2
        · subst h
          simp only [List.any_cons, List.any_nil, isInst, Bool.or_false, Bool.not_eq_true, bne_eq_false_iff_eq]
            at hany
          rw [hany]; exact fun e => hne e.symm
      simp [this]
  | str x =>
    have hany : cs.any (isInst g c (.str x)) = false := by
      rcases hcs with h | ⟨h, _⟩ <;> subst h <;> rfl
    rw [exec, hany]
    simp only [Bool.false_eq_true, ↓reduceIte, delTarget]
    cases contGet g c (.str x) <;> rfl
  | pos i =>
    have hany : cs.any (isInst g c (.pos i)) = false := by
      rcases hcs with h | ⟨h, _⟩ <;> subst h <;> rfl
    rw [exec, hany]
    simp only [Bool.false_eq_true, ↓reduceIte, delTarget]
    cases contGet g c (.pos i) <;> rfl

/-! ## `del container[key]` -/

/-- **`Container.__delitem__` and its variants, as written in `container.py`, are `contDel`** — for
every graph, every container opened through the API's naming (`containerInfo`) and every key -/
theorem runDel_eq_contDel (g : Graph) (c : Cont) (key : Key)
    (hc : containerInfo c.ownerKind c.cname = some c.info) :
    runDel Gen.h5Params (Gen.delitemOf (classOf c.info.flavour)) g c key = contDel g c key := by
  rw [contDel_eq]
  unfold runDel
  have hfeat : c.info.flavour ≠ .features → c.info.item ≠ "feature" :=
    fun hne hi => hne (containerInfo_feature hc hi)
  cases hfl : c.info.flavour <;> simp only [classOf, Gen.delitemOf]
  case plain =>
    rw [exec_resolve _ _ _ _ _ _ (Or.inl rfl)]
    cases delTarget g c key with
    | error e => rfl
    | ok k =>
      simp only [exec_require, isOwning, delKeys, hfl, ↓reduceIte]
      split
      · rfl
      · simp only [exec, evalSrc]
  case features =>
    rw [exec_resolve _ _ _ _ _ _ (Or.inl rfl)]
    cases delTarget g c key with
    | error e => rfl
    | ok k =>
      simp only [exec_require, isOwning, delKeys, hfl, ↓reduceIte]
      split
      · rfl
      · simp only [exec, evalSrc]
  case sections =>
    rw [exec_resolve _ _ _ _ _ _ (Or.inr ⟨rfl, hfeat (by rw [hfl]; decide)⟩)]
    cases delTarget g c key with
    | error e => rfl
    | ok k =>
      simp only [exec_require, isOwning, delKeys, hfl, ↓reduceIte]
      split
      · rfl
      · simp only [exec, evalSrc]
  case sources =>
    rw [exec_resolve _ _ _ _ _ _ (Or.inr ⟨rfl, hfeat (by rw [hfl]; decide)⟩)]
    cases delTarget g c key with
    | error e => rfl
    | ok k =>
      simp only [exec_require, isOwning, delKeys, hfl, ↓reduceIte]
      split
      · rfl
      · simp only [exec, evalSrc]
  case link =>
    rw [exec_resolve _ _ _ _ _ _ (Or.inr ⟨rfl, hfeat (by rw [hfl]; decide)⟩)]
    cases delTarget g c key with
    | error e => rfl
    | ok k =>
      simp only [exec_require, isOwning, Bool.false_eq_true, ↓reduceIte]
      split
      · rfl
      · simp only [exec, Gen.h5Params, Option.getD_none, h5DeleteP_one]
        cases c.node <;> cases g.entityId k <;> simp only []
        rename_i cn i
        cases h5Delete g cn c.owner.key c.cname (c.owner.depth + 1) i true <;> rfl
  case sourceLink =>
    rw [exec_resolve _ _ _ _ _ _ (Or.inr ⟨rfl, hfeat (by rw [hfl]; decide)⟩)]
    cases delTarget g c key with
    | error e => rfl
    | ok k =>
      simp only [exec_require, isOwning, Bool.false_eq_true, ↓reduceIte]
      split
      · rfl
      · simp only [exec, Gen.h5Params, Option.getD_none, h5DeleteP_one]
        cases c.node <;> cases g.entityId k <;> simp only []
        rename_i cn i
        cases h5Delete g cn c.owner.key c.cname (c.owner.depth + 1) i true <;> rfl

/-- a container opened by path carries the `containerInfo` of its owner's kind and its name -/
theorem openCont_info {g : Graph} {p : Path} {cn : String} {c : Cont} (h : openCont g p cn = some c) :
    containerInfo c.ownerKind c.cname = some c.info := by
  unfold openCont at h
  cases hr : resolve g rootLoc p with
  | none => simp [hr] at h
  | some o =>
    simp only [hr, Option.bind_eq_bind, Option.bind_some] at h
    cases hi : containerInfo (ownerKindOf g o) cn with
    | none => simp [hi] at h
    | some info =>
      simp only [hi, Option.bind_some, Option.pure_def, Option.some.injEq] at h
      rw [← h]
      exact hi

/-! ## `delete_all` -/

theorem runBody_scan (ks : List Nat) (k : Nat) :
    runBody ks k 64 Gen.deleteAllScan {} =
      { deleted := doomed ks k, stop := false, skip := false } := by
  simp only [Gen.deleteAllScan, runBody]
  unfold objIn doomed
  by_cases hc : k ∈ ks <;> simp [hc]

theorem scanLinks_eq (ks : List Nat) (ls : List (String × Nat)) :
    scanLinks ks Gen.deleteAllScan ls = ls.filter (keepLink ks) := by
  induction ls with
  | nil => rfl
  | cons l rest ih =>
    rw [scanLinks, runBody_scan]
    simp only [Bool.false_eq_true, ↓reduceIte, ih, List.filter_cons, keepLink]
    by_cases hd : doomed ks l.2 = true <;> simp [hd]

/-- **the visitor of `H5Group.delete_all`, as written in `h5group.py`, is `Graph.deleteObjs`** -/
theorem scanAll_eq_deleteObjs (g : Graph) (ks : List Nat) :
    scanAll g ks Gen.deleteAllScan = g.deleteObjs ks := by
  rw [deleteObjs_eq]
  unfold scanAll
  simp only [scanLinks_eq]

/-! ## role-link deleters -/

theorem h5Delete_plain_name (g : Graph) (grp parent : Nat) (lname : String) (depth : Nat) (name : String)
    (hu : isUuid name = false) (hc : g.hasChild grp name = true) :
    h5Delete g grp parent lname depth name false = .ok (g.delLink grp name) := by
  unfold h5Delete
  simp [hu, hc]

theorem runRole_guardedDelete (g : Graph) (o : Loc) (name : String) (hu : isUuid name = false) :
    runRole Gen.h5Params g o [.guardedDelete name (some false)] =
      if g.hasChild o.key name then .ok (g.delLink o.key name) else .ok g := by
  simp only [runRole, Gen.h5Params, Option.getD_some, h5DeleteP_one]
  split
  · rename_i hc
    rw [h5Delete_plain_name g _ _ _ _ name hu hc]
  · rfl

theorem runRole_guardedDelItem (g : Graph) (o : Loc) (name : String) :
    runRole Gen.h5Params g o [.guardedDelItem name] =
      if g.hasChild o.key name then .ok (g.delLink o.key name) else .ok g := by
  simp only [runRole]

end Nix.Store.C04
