import NixModel.Lemmas.C16Unfit
import NixModel.Pure.FrameFx
/-! Lemmas for C16: the effect-level writes of `Pure/FrameFx.lean` (two conversion stages, intermediate states,
roll-back handlers) end in the state of the atomic byte-level writes of `Pure/FrameBytes.lean`. -/
namespace Nix.Frame

/-- the one-step conversion is the two stages: NumPy's conversion, then h5py's acceptance of the result -/
theorem conv_two_stage {t : ColType} {v w : Val} :
    conv t v = .ok w ↔ (convNp t v = .ok w ∧ h5Ok t w = true) := by
  cases t <;> cases v <;> simp [conv, convNp, h5Ok]
  all_goals (intro h; subst h; rfl)

theorem conv_err_of_np_err {t : ColType} {v : Val} {e : Err} (h : convNp t v = .error e) : conv t v = .error e := by
  cases t <;> simp_all [convNp]

theorem convCells_two_stage : ∀ {ts : List ColType} {vs : List Val} {ws : Row},
    convCells ts vs = .ok ws ↔ (npCells ts vs = .ok ws ∧ h5RowOk ts ws = true)
  | [], [], ws => by
    simp only [convCells, npCells]
    constructor
    · intro h; injection h with h; subst h; exact ⟨rfl, rfl⟩
    · exact fun h => h.1
  | [], _ :: _, ws => by simp [convCells, npCells]
  | _ :: _, [], ws => by simp [convCells, npCells]
  | t :: ts, v :: vs, ws => by
    simp only [convCells, npCells]
    constructor
    · intro h
      split at h
      · cases h
      · rename_i w hw
        split at h
        · cases h
        · rename_i ws' hws
          injection h with h; subst h
          obtain ⟨h1, h2⟩ := conv_two_stage.1 hw
          obtain ⟨g1, g2⟩ := convCells_two_stage.1 hws
          simp [h1, g1, h5RowOk, h2, g2]
    · rintro ⟨h, hok⟩
      split at h
      · cases h
      · rename_i w hw
        split at h
        · cases h
        · rename_i ws' hws
          injection h with h; subst h
          simp only [h5RowOk, Bool.and_eq_true] at hok
          have := conv_two_stage.2 ⟨hw, hok.1⟩
          have g := convCells_two_stage.2 ⟨hws, hok.2⟩
          simp [this, g]

theorem convRow_two_stage {ts : List ColType} {vs : List Val} {ws : Row} :
    convRow ts vs = .ok ws ↔ (npRow ts vs = .ok ws ∧ h5RowOk ts ws = true) := by
  unfold convRow npRow
  split
  · simp
  · exact convCells_two_stage

theorem convRows_two_stage {ts : List ColType} : ∀ {rows : List (List Val)} {rs : List Row},
    convRows ts rows = .ok rs ↔ (npRows ts rows = .ok rs ∧ h5RowsOk ts rs = true)
  | [], rs => by simp [convRows, npRows, h5RowsOk]; intro h; subst h; simp
  | r :: rows, rs => by
    simp only [convRows, npRows]
    constructor
    · intro h
      split at h
      · cases h
      · rename_i w hw
        split at h
        · cases h
        · rename_i ws hws
          injection h with h; subst h
          obtain ⟨h1, h2⟩ := convRow_two_stage.1 hw
          obtain ⟨g1, g2⟩ := convRows_two_stage.1 hws
          simp only [h5RowsOk] at g2
          simp [h1, g1, h5RowsOk, h2, g2]
    · rintro ⟨h, hok⟩
      split at h
      · cases h
      · rename_i w hw
        split at h
        · cases h
        · rename_i ws hws
          injection h with h; subst h
          simp only [h5RowsOk, List.all_cons, Bool.and_eq_true] at hok
          have := convRow_two_stage.2 ⟨hw, hok.1⟩
          have g := convRows_two_stage.2 ⟨hws, by simpa [h5RowsOk] using hok.2⟩
          simp [this, g]

theorem convCol_two_stage {t : ColType} : ∀ {col ws : List Val},
    convCol t col = .ok ws ↔ (npCol t col = .ok ws ∧ ws.all (h5Ok t) = true)
  | [], ws => by simp [convCol, npCol]; intro h; subst h; simp
  | v :: vs, ws => by
    simp only [convCol, npCol]
    constructor
    · intro h
      split at h
      · cases h
      · rename_i w hw
        split at h
        · cases h
        · rename_i ws' hws
          injection h with h; subst h
          obtain ⟨h1, h2⟩ := conv_two_stage.1 hw
          obtain ⟨g1, g2⟩ := convCol_two_stage.1 hws
          simp [h1, g1, h2, g2]
    · rintro ⟨h, hok⟩
      split at h
      · cases h
      · rename_i w hw
        split at h
        · cases h
        · rename_i ws' hws
          injection h with h; subst h
          simp only [List.all_cons, Bool.and_eq_true] at hok
          have := conv_two_stage.2 ⟨hw, hok.1⟩
          have g := convCol_two_stage.2 ⟨hws, hok.2⟩
          simp [this, g]

-- ---------------------------------------------------------------------------------------
-- append_rows

/-- `append_rows`, effect by effect (conversion, enlarge, write, roll-back), ends in the state of the atomic
    byte-level `append_rows` and is accepted exactly when that is — whatever the failed write left behind -/
theorem fxAppendRows_eq (s : SFrame) (rows : List (List Val)) (junk : List SRow) :
    (fxAppendRows s rows junk).1 = (sAppendRows s rows).1 ∧
    ((fxAppendRows s rows junk).2 = none ↔ (sAppendRows s rows).2 = none) := by
  unfold fxAppendRows sAppendRows
  cases hnp : npRows s.types rows with
  | error e =>
    cases hc : convRows s.types rows with
    | error e' => simp
    | ok rs =>
      have := (convRows_two_stage.1 hc).1
      rw [hnp] at this; cases this
  | ok rs =>
    simp only []
    by_cases hok : h5RowsOk s.types rs = true
    · have hc := convRows_two_stage.2 ⟨hnp, hok⟩
      simp [hok, hc]
    · cases hc : convRows s.types rows with
      | error e' =>
        simp only [hok]
        simp
      | ok rs' =>
        obtain ⟨h1, h2⟩ := convRows_two_stage.1 hc
        rw [hnp] at h1; injection h1 with h1; subst h1
        exact absurd h2 hok

-- ---------------------------------------------------------------------------------------
-- write_column

/-- the two loops of `write_column` (assign in memory, then store row by row) against the one loop of the atomic
    model: both fail or both succeed, and when they succeed they have written the same rows -/
theorem fxLoops_vs_atomic (t : ColType) (c : Nat) : ∀ (rows : List SRow) (col : List Val),
    match fxAssignLoop t c rows col with
    | .error _ => (sWriteColLoop t c rows col).2 ≠ none
    | .ok changed =>
      match fxStoreLoop t c rows changed with
      | (rows', none) => sWriteColLoop t c rows col = (rows', none)
      | (_, some _) => (sWriteColLoop t c rows col).2 ≠ none
  | [], col => by cases col <;> simp [fxAssignLoop, fxStoreLoop, sWriteColLoop]
  | r :: rs, [] => by simp [fxAssignLoop, fxStoreLoop, sWriteColLoop]
  | r :: rs, v :: vs => by
    have ih := fxLoops_vs_atomic t c rs vs
    simp only [fxAssignLoop, sWriteColLoop]
    cases hnp : convNp t v with
    | error e =>
      simp [conv_err_of_np_err hnp]
    | ok w =>
      simp only []
      cases hrest : fxAssignLoop t c rs vs with
      | error e =>
        rw [hrest] at ih
        simp only [] at ih ⊢
        cases hc : conv t v with
        | error e' => simp
        | ok w' => simpa using ih
      | ok ps =>
        rw [hrest] at ih
        simp only [] at ih
        simp only [fxStoreLoop]
        by_cases hok : h5Ok t w = true
        · have hc := conv_two_stage.2 ⟨hnp, hok⟩
          simp only [hok, if_true, hc]
          cases hp : fxStoreLoop t c rs ps with
          | mk rows' e =>
            rw [hp] at ih
            cases e with
            | none => simp only [] at ih ⊢; rw [ih]
            | some e => simp only [] at ih ⊢; exact ih
        · simp only [hok]
          cases hc : conv t v with
          | error e' => simp
          | ok w' =>
            obtain ⟨h1, h2⟩ := conv_two_stage.1 hc
            rw [hnp] at h1; injection h1 with h1; subst h1
            exact absurd h2 hok

/-- `write_column`, effect by effect (assign every cell in memory, rewrite the rows one by one, on failure write the
    rows read at the start back), ends in the state of the atomic byte-level `write_column` and is accepted exactly
    when that is -/
theorem fxWriteColumn_eq (s : SFrame) (col : List Val) (index : Option Int) (name : Option String) :
    (fxWriteColumn s col index name).1 = (sWriteColumn s col index name).1 ∧
    ((fxWriteColumn s col index name).2 = none ↔ (sWriteColumn s col index name).2 = none) := by
  unfold fxWriteColumn sWriteColumn
  split
  · simp
  · cases sResolveColName s index name with
    | error e => simp
    | ok nm =>
      simp only []
      cases hr : s.rows with
      | nil => simp
      | cons r0 rest =>
        simp only []
        cases findCol s.cols nm with
        | none => simp
        | some c =>
          simp only []
          cases s.cols[c]? with
          | none => simp
          | some ct =>
            simp only []
            have h := fxLoops_vs_atomic ct.2 c (r0 :: rest) col
            cases ha : fxAssignLoop ct.2 c (r0 :: rest) col with
            | error e =>
              rw [ha] at h
              simp only [] at h ⊢
              cases hw : sWriteColLoop ct.2 c (r0 :: rest) col with
              | mk rows' e' =>
                rw [hw] at h
                cases e' with
                | none => exact absurd rfl h
                | some e' => simp
            | ok changed =>
              rw [ha] at h
              simp only [] at h ⊢
              cases hp : fxStoreLoop ct.2 c (r0 :: rest) changed with
              | mk rows' e =>
                rw [hp] at h
                cases e with
                | none =>
                  simp only [] at h ⊢
                  rw [h]
                  simp
                | some e =>
                  simp only [] at h ⊢
                  cases hw : sWriteColLoop ct.2 c (r0 :: rest) col with
                  | mk rows'' e' =>
                    rw [hw] at h
                    cases e' with
                    | none => exact absurd rfl h
                    | some e' =>
                      refine ⟨?_, by simp⟩
                      cases s; simp_all

-- ---------------------------------------------------------------------------------------
-- append_column

/-- `append_column`, effect by effect (convert, build `data.new` beside the table, swap — or delete `data.new` when
    h5py refuses a cell), ends with the table of the atomic byte-level `append_column`, no `data.new` left, and is
    accepted exactly when that is -/
theorem fxAppendColumn_eq (s : SFrame) (col : List Val) (name : String) (dt : Option ColType) :
    (fxAppendColumn ⟨s, none⟩ col name dt).1.data = (sAppendColumn s col name dt).1 ∧
    (fxAppendColumn ⟨s, none⟩ col name dt).1.dataNew = none ∧
    ((fxAppendColumn ⟨s, none⟩ col name dt).2 = none ↔ (sAppendColumn s col name dt).2 = none) := by
  unfold fxAppendColumn sAppendColumn
  simp only []
  split
  · simp
  · have tail : ∀ t : ColType,
        ((match mkDtype (s.cols ++ [(name, t)]) with
          | .error e => ((⟨s, none⟩ : SGroup), some e)
          | .ok cols' =>
            match npCol t col with
            | .error e => (⟨s, none⟩, some e)
            | .ok ws =>
              if ws.all (h5Ok t) = true then
                (⟨{ cols := cols', rows := sAppendCell s.rows (ws.map enc), units := s.units.map (· ++ [none]) },
                  none⟩, none)
              else (⟨s, none⟩, some .typeError)) : SGroup × Option Err).1.data =
          (match mkDtype (s.cols ++ [(name, t)]) with
          | .error e => (s, some e)
          | .ok cols' =>
            match convCol t col with
            | .error e => (s, some e)
            | .ok ws =>
              (({ cols := cols', rows := sAppendCell s.rows (ws.map enc),
                  units := s.units.map (· ++ [none]) } : SFrame), (none : Option Err))).1 ∧
        ((match mkDtype (s.cols ++ [(name, t)]) with
          | .error e => ((⟨s, none⟩ : SGroup), some e)
          | .ok cols' =>
            match npCol t col with
            | .error e => (⟨s, none⟩, some e)
            | .ok ws =>
              if ws.all (h5Ok t) = true then
                (⟨{ cols := cols', rows := sAppendCell s.rows (ws.map enc), units := s.units.map (· ++ [none]) },
                  none⟩, none)
              else (⟨s, none⟩, some .typeError)) : SGroup × Option Err).1.dataNew = none ∧
        (((match mkDtype (s.cols ++ [(name, t)]) with
          | .error e => ((⟨s, none⟩ : SGroup), some e)
          | .ok cols' =>
            match npCol t col with
            | .error e => (⟨s, none⟩, some e)
            | .ok ws =>
              if ws.all (h5Ok t) = true then
                (⟨{ cols := cols', rows := sAppendCell s.rows (ws.map enc), units := s.units.map (· ++ [none]) },
                  none⟩, none)
              else (⟨s, none⟩, some .typeError)) : SGroup × Option Err).2 = none ↔
          (match mkDtype (s.cols ++ [(name, t)]) with
          | .error e => (s, some e)
          | .ok cols' =>
            match convCol t col with
            | .error e => (s, some e)
            | .ok ws =>
              (({ cols := cols', rows := sAppendCell s.rows (ws.map enc),
                  units := s.units.map (· ++ [none]) } : SFrame), (none : Option Err))).2 = none) := by
      intro t
      cases mkDtype (s.cols ++ [(name, t)]) with
      | error e => simp
      | ok cols' =>
        simp only []
        cases hnp : npCol t col with
        | error e =>
          cases hc : convCol t col with
          | error e' => simp
          | ok ws =>
            have := (convCol_two_stage.1 hc).1
            rw [hnp] at this; cases this
        | ok ws =>
          simp only []
          by_cases hok : ws.all (h5Ok t) = true
          · have hc := convCol_two_stage.2 ⟨hnp, hok⟩
            simp [hok, hc]
          · cases hc : convCol t col with
            | error e' => simp [hok]
            | ok ws' =>
              obtain ⟨h1, h2⟩ := convCol_two_stage.1 hc
              rw [hnp] at h1; injection h1 with h1; subst h1
              exact absurd h2 hok
    cases dt with
    | some t => exact tail t
    | none =>
      cases col with
      | nil => simp
      | cons v vs => exact tail (typeOfVal v)

-- ---------------------------------------------------------------------------------------
-- write_rows

theorem fxWriteRows_eq (s : SFrame) (rows : List (List Val)) (idx : List Int) :
    (fxWriteRows s rows idx).1 = (sWriteRows s rows idx).1 ∧
    ((fxWriteRows s rows idx).2 = none ↔ (sWriteRows s rows idx).2 = none) := by
  unfold fxWriteRows sWriteRows
  cases rows with
  | nil => simp
  | cons r0 rest =>
    simp only []
    split
    · simp
    · split
      · simp
      · cases hnp : npRows s.types (r0 :: rest) with
        | error e =>
          cases hc : convRows s.types (r0 :: rest) with
          | error e' => simp
          | ok rs =>
            have := (convRows_two_stage.1 hc).1
            rw [hnp] at this; cases this
        | ok rs =>
          simp only []
          by_cases hok : h5RowsOk s.types rs = true
          · have hc := convRows_two_stage.2 ⟨hnp, hok⟩
            simp only [hok, if_true, hc]
            cases selectList s.rows.length idx .typeError <;> simp
          · cases hc : convRows s.types (r0 :: rest) with
            | error e' => simp [hok]
            | ok rs' =>
              obtain ⟨h1, h2⟩ := convRows_two_stage.1 hc
              rw [hnp] at h1; injection h1 with h1; subst h1
              exact absurd h2 hok

end Nix.Frame
