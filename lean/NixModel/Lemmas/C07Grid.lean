import Mathlib.Tactic.Linarith
import Mathlib.Tactic.Ring
import Mathlib.Tactic.NormNum
import Mathlib.Tactic.FieldSimp
import Mathlib.Algebra.Order.Floor.Ring
import Mathlib.Data.Rat.Floor
import NixModel.Lemmas.C07Range

/-!
Helper lemmas for C07: `np.isclose` / rounding stand-ins, the unit grid (`setCoord`), and the
characterisation of `SampledDimension.index_of` and `SetDimension.index_of` under `SeparatedAt`.
-/
namespace Nix.Dim.Lemmas
open Nix Nix.Dim Nix.Dim.Gen

/-! ## numpy stand-ins -/

theorem absR_eq (x : Rat) : absR x = |x| := by
  unfold absR
  split_ifs with h
  · exact (abs_of_neg h).symm
  · exact (abs_of_nonneg (not_lt.1 h)).symm

theorem band_eq (t : Tol) (b : Rat) : band t b = t.atol + t.rtol * |b| := by
  simp [band, absR_eq]

theorem band_nonneg (t : Tol) (hr : 0 ≤ t.rtol) (ha : 0 ≤ t.atol) (b : Rat) : 0 ≤ band t b := by
  rw [band_eq]
  have := mul_nonneg hr (abs_nonneg b)
  linarith

theorem isclose_iff (t : Tol) (a b : Rat) : isclose t a b = true ↔ |a - b| ≤ band t b := by
  simp [isclose, absR_eq]

theorem isclose_self (t : Tol) (hr : 0 ≤ t.rtol) (ha : 0 ≤ t.atol) (b : Rat) : isclose t b b = true := by
  rw [isclose_iff]; simpa using band_nonneg t hr ha b

/-- under `SeparatedAt`, the tolerance test decides "on the sample" exactly -/
theorem isclose_sep (t : Tol) (hr : 0 ≤ t.rtol) (ha : 0 ≤ t.atol) (x : Rat) (k : Int)
    (hs : SeparatedAt t x) : isclose t x (k : Rat) = true ↔ x = (k : Rat) := by
  constructor
  · intro h
    rcases hs k with h1 | h1
    · exact h1
    · rw [isclose_iff] at h
      rw [absR_eq] at h1
      linarith
  · intro h; rw [h]; exact isclose_self t hr ha _

theorem floor_eq (x : Rat) : x.floor = ⌊x⌋ := rfl

theorem roundHalfEven_unfold (x : Rat) : roundHalfEven x =
    if x - (⌊x⌋ : Rat) < 1 / 2 then ⌊x⌋
    else if 1 / 2 < x - (⌊x⌋ : Rat) then ⌊x⌋ + 1
    else if ⌊x⌋ % 2 = 0 then ⌊x⌋ else ⌊x⌋ + 1 := rfl

theorem roundHalfEven_cases (x : Rat) : roundHalfEven x = ⌊x⌋ ∨ roundHalfEven x = ⌊x⌋ + 1 := by
  rw [roundHalfEven_unfold]
  split_ifs <;> first | exact Or.inl rfl | exact Or.inr rfl

theorem roundHalfEven_int (x : Rat) (h : x = (⌊x⌋ : Rat)) : roundHalfEven x = ⌊x⌋ := by
  rw [roundHalfEven_unfold]
  have : x - (⌊x⌋ : Rat) < 1 / 2 := by
    have : x - (⌊x⌋ : Rat) = 0 := by linarith
    rw [this]; norm_num
  rw [if_pos this]

/-- the two rounding functions the source may use in front of the hit test, as far as the proofs need -/
theorem roundBy_cases (rnd : String) (hr : rnd = "round" ∨ rnd = "floor") (x : Rat) :
    (roundBy rnd x = ⌊x⌋ ∨ roundBy rnd x = ⌊x⌋ + 1) ∧ (x = (⌊x⌋ : Rat) → roundBy rnd x = ⌊x⌋) := by
  rcases hr with rfl | rfl
  · have h : roundBy "round" x = roundHalfEven x := by simp [roundBy]
    rw [h]
    exact ⟨roundHalfEven_cases x, roundHalfEven_int x⟩
  · have h : roundBy "floor" x = ⌊x⌋ := by
      unfold roundBy
      rw [if_neg (by decide), if_neg (by decide)]
      rfl
    rw [h]
    exact ⟨Or.inl rfl, fun _ => rfl⟩

/-! ## the unit grid: `setCoord i = i` on a domain `n` -/

theorem meets_congr {mode : IndexMode} {c1 c2 : Nat → Rat} {n : Option Nat} {x1 x2 : Rat}
    (h : ∀ k, IsSample mode c1 n x1 k ↔ IsSample mode c2 n x2 k) (r : Except Err Int) :
    Meets mode c1 n x1 r ↔ Meets mode c2 n x2 r := by
  cases r with
  | ok i => simp only [Meets, h]
  | error e => simp only [Meets, h]

theorem natCast_le_of_lt_succ (j m : Nat) (x : Rat) (h1 : (j : Rat) ≤ x) (h2 : x < (m : Rat) + 1) : j ≤ m := by
  have : (j : Rat) < ((m + 1 : Nat) : Rat) := by push_cast; linarith
  have := Nat.cast_lt.1 this
  omega

theorem grid_neg_geq (n : Option Nat) (x : Rat) (h : x ≤ 0) (h0 : InDom n 0) :
    Meets .geq setCoord n x (.ok 0) := by
  refine meets_ok 0 ⟨h0, ?_, fun j _ _ => Nat.zero_le j⟩
  simp [setCoord]; exact h

theorem grid_neg_leq (n : Option Nat) (x : Rat) (h : x < 0) :
    Meets .leq setCoord n x (.error .indexError) := by
  apply meets_error
  rintro k ⟨_, hle, _⟩
  have : (0 : Rat) ≤ (k : Rat) := Nat.cast_nonneg k
  simp only [setCoord] at hle
  linarith

theorem grid_neg_less (n : Option Nat) (x : Rat) (h : x ≤ 0) :
    Meets .less setCoord n x (.error .indexError) := by
  apply meets_error
  rintro k ⟨_, hlt, _⟩
  have : (0 : Rat) ≤ (k : Rat) := Nat.cast_nonneg k
  simp only [setCoord] at hlt
  linarith

/-- on grid point `m` -/
theorem grid_on_leq (n : Option Nat) (x : Rat) (m : Nat) (h : x = (m : Rat)) (hd : InDom n m) :
    Meets .leq setCoord n x (.ok (m : Int)) := by
  refine meets_ok m ⟨hd, ?_, ?_⟩
  · simp [setCoord, h]
  · intro j _ hj
    simp only [setCoord, h] at hj
    exact_mod_cast hj

theorem grid_on_geq (n : Option Nat) (x : Rat) (m : Nat) (h : x = (m : Rat)) (hd : InDom n m) :
    Meets .geq setCoord n x (.ok (m : Int)) := by
  refine meets_ok m ⟨hd, ?_, ?_⟩
  · simp [setCoord, h]
  · intro j _ hj
    simp only [setCoord, h] at hj
    exact_mod_cast hj

theorem grid_on_less (n : Option Nat) (x : Rat) (m : Nat) (h : x = ((m + 1 : Nat) : Rat)) (hd : InDom n m) :
    Meets .less setCoord n x (.ok (m : Int)) := by
  refine meets_ok m ⟨hd, ?_, ?_⟩
  · simp only [setCoord, h]; push_cast; linarith
  · intro j _ hj
    simp only [setCoord, h] at hj
    have := Nat.cast_lt.1 hj
    omega

/-- strictly between the grid points `m` and `m + 1` -/
theorem grid_between_leq (n : Option Nat) (x : Rat) (m : Nat) (h1 : (m : Rat) ≤ x) (h2 : x < (m : Rat) + 1)
    (hd : InDom n m) : Meets .leq setCoord n x (.ok (m : Int)) := by
  refine meets_ok m ⟨hd, ?_, ?_⟩
  · simpa [setCoord] using h1
  · intro j _ hj
    simp only [setCoord] at hj
    exact natCast_le_of_lt_succ j m x hj h2

theorem grid_between_less (n : Option Nat) (x : Rat) (m : Nat) (h1 : (m : Rat) < x) (h2 : x ≤ (m : Rat) + 1)
    (hd : InDom n m) : Meets .less setCoord n x (.ok (m : Int)) := by
  refine meets_ok m ⟨hd, ?_, ?_⟩
  · simpa [setCoord] using h1
  · intro j _ hj
    simp only [setCoord] at hj
    have : (j : Rat) < ((m + 1 : Nat) : Rat) := by push_cast; linarith
    have := Nat.cast_lt.1 this
    omega

theorem grid_between_geq (n : Option Nat) (x : Rat) (m : Nat) (h1 : (m : Rat) < x) (h2 : x ≤ (m : Rat) + 1)
    (hd : InDom n (m + 1)) : Meets .geq setCoord n x (.ok ((m : Int) + 1)) := by
  have hc : ((m : Int) + 1) = ((m + 1 : Nat) : Int) := by push_cast; rfl
  rw [hc]
  refine meets_ok (m + 1) ⟨hd, ?_, ?_⟩
  · simp only [setCoord]; push_cast; exact h2
  · intro j _ hj
    simp only [setCoord] at hj
    have : (m : Rat) < (j : Rat) := lt_of_lt_of_le h1 hj
    have := Nat.cast_lt.1 this
    omega

/-- beyond the last grid point of a bounded domain -/
theorem grid_after_leq (n : Nat) (hn : n ≠ 0) (x : Rat) (h : (n : Rat) - 1 < x) :
    Meets .leq setCoord (some n) x (.ok ((n : Int) - 1)) := by
  have hc : ((n : Int) - 1) = ((n - 1 : Nat) : Int) := by omega
  rw [hc]
  refine meets_ok (n - 1) ⟨(inDom_some _ _).2 (by omega), ?_, ?_⟩
  · simp only [setCoord]
    have : ((n - 1 : Nat) : Rat) = (n : Rat) - 1 := by
      have h1 : 1 ≤ n := by omega
      push_cast [Nat.cast_sub h1]; ring
    rw [this]; exact le_of_lt h
  · intro j hj _
    have := (inDom_some _ _).1 hj
    omega

theorem grid_after_less (n : Nat) (hn : n ≠ 0) (x : Rat) (h : (n : Rat) - 1 < x) :
    Meets .less setCoord (some n) x (.ok ((n : Int) - 1)) := by
  have hc : ((n : Int) - 1) = ((n - 1 : Nat) : Int) := by omega
  rw [hc]
  refine meets_ok (n - 1) ⟨(inDom_some _ _).2 (by omega), ?_, ?_⟩
  · simp only [setCoord]
    have : ((n - 1 : Nat) : Rat) = (n : Rat) - 1 := by
      have h1 : 1 ≤ n := by omega
      push_cast [Nat.cast_sub h1]; ring
    rw [this]; exact h
  · intro j hj _
    have := (inDom_some _ _).1 hj
    omega

theorem grid_after_geq (n : Nat) (x : Rat) (h : (n : Rat) - 1 < x) :
    Meets .geq setCoord (some n) x (.error .indexError) := by
  apply meets_error
  rintro k ⟨hk, hge, _⟩
  have hk' := (inDom_some _ _).1 hk
  simp only [setCoord] at hge
  have : (k : Rat) ≤ (n : Rat) - 1 := by
    have : ((k + 1 : Nat) : Rat) ≤ (n : Rat) := by exact_mod_cast hk'
    push_cast at this; linarith
  linarith

/-- a non-negative rational has a natural floor -/
theorem floor_nat (x : Rat) (h : 0 ≤ x) : ∃ m : Nat, ⌊x⌋ = (m : Int) ∧ (m : Rat) ≤ x ∧ x < (m : Rat) + 1 := by
  have h0 : 0 ≤ ⌊x⌋ := Int.floor_nonneg.2 h
  obtain ⟨m, hm⟩ := Int.eq_ofNat_of_zero_le h0
  refine ⟨m, hm, ?_, ?_⟩
  · have := Int.floor_le x
    rw [hm] at this
    exact_mod_cast this
  · have := Int.lt_floor_add_one x
    rw [hm] at this
    exact_mod_cast this

end Nix.Dim.Lemmas
