import NixModel.Pure.Handles

/-!
# C02 — invariant of the handle machine (repaired code), for link-list histories

`Inv`: no entity groups around (link-list histories create none); `P`'s links and the objects'
`path`s describe the same relation; every cached object of every handle is either the group `P`
links under the handle's name, or a group that was removed from the file *empty* (the only way a
link list is removed: `delete(..., delete_if_empty=True)`).
-/
namespace Nix.Handles.Lemmas
open Nix.Handles

/-- what a handle may have cached -/
def HOk (st : St) (h : Handle) : Prop :=
  ∀ c, h.cache = some c → c < st.next ∧
    ((st.heap c).path = some h.name ∨ ((st.heap c).path = none ∧ (st.heap c).links = []))

structure Core (st : St) : Prop where
  noAnchor : ∀ c, (st.heap c).anchored = false
  plinkPath : ∀ n c, st.plinks n = some c → c < st.next ∧ (st.heap c).path = some n
  pathPlink : ∀ c n, (st.heap c).path = some n → st.plinks n = some c

structure Inv (st : St) : Prop extends Core st where
  hok : ∀ h ∈ st.handles, HOk st h

theorem inv_init : Inv init := by
  refine ⟨⟨?_, ?_, ?_⟩, ?_⟩ <;> simp [init]

/-- **the view through a handle is the view of a fresh handle** -/
theorem view_eq_truth {st : St} (hc : Core st) {h : Handle} (hh : HOk st h) :
    view Code.current st h = truth st h.name := by
  unfold view getter entriesOf truth
  cases hcache : h.cache with
  | none => simp
  | some c =>
    obtain ⟨_, hor⟩ := hh c hcache
    rcases hor with hp | ⟨hp, hl⟩
    · have : inFile st c = true := by simp [inFile, hp]
      simp [Code.current, this, hcache, hc.pathPlink c _ hp]
    · have : inFile st c = false := by simp [inFile, hp, hc.noAnchor c]
      simp only [Code.current, this, Bool.not_false, Bool.and_self, ↓reduceIte]
      cases hpl : st.plinks h.name with
      | none => simp [hcache, hl]
      | some c' => simp

theorem getter_name (cd : Code) (st : St) (h : Handle) : (getter cd st h).name = h.name := by
  unfold getter
  split
  · split
    · split <;> rfl
    · rfl
  · rfl

theorem getter_ok {st : St} (hc : Core st) {h : Handle} (hh : HOk st h) :
    HOk st (getter Code.current st h) := by
  intro c hcache
  rw [getter_name]
  unfold getter at hcache
  cases hcc : h.cache with
  | none =>
    simp only [hcc] at hcache
    have := hc.plinkPath _ _ hcache
    exact ⟨this.1, Or.inl this.2⟩
  | some c0 =>
    simp only [hcc] at hcache
    split at hcache
    · cases hpl : st.plinks h.name with
      | none => simp only [hpl] at hcache; rw [hcc] at hcache; cases hcache; exact hh c hcc
      | some c' =>
        simp only [hpl] at hcache
        cases hcache
        have := hc.plinkPath _ _ hpl
        exact ⟨this.1, Or.inl this.2⟩
    · rw [hcc] at hcache; cases hcache; exact hh c hcc

/-- after the getter, a cached group that is still there is the one `P` links under the name -/
theorem getter_cache_linked {st : St} (hc : Core st) {h : Handle} (hh : HOk st h) {c : Nat}
    (hcache : (getter Code.current st h).cache = some c) (hp : (st.heap c).path.isSome) :
    st.plinks h.name = some c := by
  have := getter_ok hc hh c hcache
  rw [getter_name] at this
  rcases this.2 with h1 | ⟨h1, _⟩
  · exact hc.pathPlink _ _ h1
  · rw [h1] at hp; cases hp

theorem lookupOrCreate_name (st : St) (h : Handle) : (lookupOrCreate st h).2.name = h.name := by
  unfold lookupOrCreate; split <;> rfl

theorem lookupOrCreate_handles (st : St) (h : Handle) : (lookupOrCreate st h).1.handles = st.handles := by
  unfold lookupOrCreate; split <;> rfl

theorem lookupOrCreate_spec {st : St} (hc : Core st) (h : Handle) :
    Core (lookupOrCreate st h).1 ∧
    (∃ c, (lookupOrCreate st h).2.cache = some c ∧ (lookupOrCreate st h).1.plinks h.name = some c) ∧
    (∀ h', HOk st h' → HOk (lookupOrCreate st h).1 h') := by
  unfold lookupOrCreate
  cases hpl : st.plinks h.name with
  | some c' => exact ⟨hc, ⟨c', rfl, hpl⟩, fun _ x => x⟩
  | none =>
    refine ⟨⟨?_, ?_, ?_⟩, ⟨st.next, rfl, by simp [updS]⟩, ?_⟩
    · intro c
      simp only [upd]
      split
      · rfl
      · exact hc.noAnchor c
    · intro n c hnc
      simp only [updS] at hnc
      simp only [upd]
      split at hnc
      · cases hnc
        rename_i hn
        simp [hn]
      · have := hc.plinkPath n c hnc
        have hne : c ≠ st.next := by omega
        simp only [hne, ↓reduceIte]
        exact ⟨by omega, this.2⟩
    · intro c n hcn
      simp only [upd] at hcn
      simp only [updS]
      split at hcn
      · rename_i hceq
        simp only [Option.some.injEq] at hcn
        simp [hcn, hceq]
      · have hp := hc.pathPlink c n hcn
        have hne : n ≠ h.name := by
          intro e; rw [e, hpl] at hp; cases hp
        simp [hne, hp]
    · intro h' hh' c hcache
      have := hh' c hcache
      have hne : c ≠ st.next := by omega
      simp only [upd, hne, ↓reduceIte]
      exact ⟨by omega, this.2⟩

theorem createH5_name (cd : Code) (st : St) (h : Handle) : (createH5 cd st h).2.name = h.name := by
  unfold createH5
  split
  · split
    · rfl
    · exact lookupOrCreate_name st h
  · exact lookupOrCreate_name st h

theorem createH5_handles (cd : Code) (st : St) (h : Handle) : (createH5 cd st h).1.handles = st.handles := by
  unfold createH5
  split
  · split
    · rfl
    · exact lookupOrCreate_handles st h
  · exact lookupOrCreate_handles st h

/-- `_create_h5obj` leaves the handle on the group `P` links under its name -/
theorem createH5_spec {st : St} (hc : Core st) {h : Handle} (hh : HOk st h) :
    Core (createH5 Code.current st h).1 ∧
    (∃ c, (createH5 Code.current st h).2.cache = some c ∧
          (createH5 Code.current st h).1.plinks h.name = some c) ∧
    (∀ h', HOk st h' → HOk (createH5 Code.current st h).1 h') := by
  unfold createH5
  cases hcache : h.cache with
  | none => exact lookupOrCreate_spec hc h
  | some c =>
    simp only [Code.current, Bool.true_and]
    split
    · rename_i hin
      refine ⟨hc, ⟨c, hcache, ?_⟩, fun _ x => x⟩
      have hp : (st.heap c).path.isSome := by simpa [inFile, hc.noAnchor c] using hin
      rcases (hh c hcache).2 with h1 | ⟨h1, _⟩
      · exact hc.pathPlink _ _ h1
      · rw [h1] at hp; cases hp
    · exact lookupOrCreate_spec hc h

theorem hok_of_linked {st : St} (hc : Core st) {h : Handle} {c : Nat} (hcache : h.cache = some c)
    (hpl : st.plinks h.name = some c) : HOk st h := by
  intro c' hc'
  rw [hcache] at hc'; cases hc'
  have := hc.plinkPath _ _ hpl
  exact ⟨this.1, Or.inl this.2⟩

theorem inv_setHandle {st : St} (hI : Inv st) (i : Nat) {h : Handle} (hh : HOk st h) :
    Inv (setHandle st i h) := by
  refine ⟨⟨hI.noAnchor, hI.plinkPath, hI.pathPlink⟩, ?_⟩
  intro h' hmem
  rcases List.mem_or_eq_of_mem_set hmem with hm | rfl
  · exact hI.hok h' hm
  · exact hh

/-- changing the entries / attributes of a group that is linked from `P` -/
theorem inv_updObj {st : St} (hI : Inv st) {c : Nat} (hp : (st.heap c).path.isSome) (o : Obj)
    (hpath : o.path = (st.heap c).path) (hanch : o.anchored = (st.heap c).anchored) :
    Inv { st with heap := upd st.heap c o } := by
  refine ⟨⟨?_, ?_, ?_⟩, ?_⟩
  · intro c'
    simp only [upd]
    split
    · rename_i e; rw [hanch, ← e]; exact hI.noAnchor c'
    · exact hI.noAnchor c'
  · intro n c' hnc
    have := hI.plinkPath n c' hnc
    refine ⟨this.1, ?_⟩
    simp only [upd]
    split
    · rename_i e; rw [hpath, ← e]; exact this.2
    · exact this.2
  · intro c' n hcn
    simp only [upd] at hcn
    split at hcn
    · rename_i e; rw [hpath, ← e] at hcn; exact hI.pathPlink c' n hcn
    · exact hI.pathPlink c' n hcn
  · intro h' hmem c' hcache
    have := hI.hok h' hmem c' hcache
    refine ⟨this.1, ?_⟩
    simp only [upd]
    split
    · rename_i e
      subst e
      rw [hpath]
      rcases this.2 with h1 | ⟨h1, _⟩
      · exact Or.inl h1
      · rw [h1] at hp; cases hp
    · exact this.2

theorem hok_updObj {st : St} {c : Nat} (hp : (st.heap c).path.isSome) (o : Obj)
    (hpath : o.path = (st.heap c).path) {h : Handle} (hh : HOk st h) :
    HOk { st with heap := upd st.heap c o } h := by
  intro c' hcache
  have := hh c' hcache
  refine ⟨this.1, ?_⟩
  simp only [upd]
  split
  · rename_i e
    subst e
    rw [hpath]
    rcases this.2 with h1 | ⟨h1, _⟩
    · exact Or.inl h1
    · rw [h1] at hp; cases hp
  · exact this.2

/-- removing the (empty) group `c` that `P` links under `name` -/
theorem inv_unlinkP_empty {st : St} (hI : Inv st) {name : String} {c : Nat}
    (hpl : st.plinks name = some c) (hempty : (st.heap c).links = []) :
    Inv (unlinkP st name) := by
  unfold unlinkP
  simp only [hpl]
  have hcp := hI.plinkPath _ _ hpl
  refine ⟨⟨?_, ?_, ?_⟩, ?_⟩
  · intro c'
    simp only [upd]
    split
    · rename_i e; subst e; exact hI.noAnchor _
    · exact hI.noAnchor c'
  · intro n c' hnc
    simp only [updS] at hnc
    split at hnc
    · cases hnc
    · rename_i hne
      have := hI.plinkPath n c' hnc
      have hcc : c' ≠ c := by
        intro e; subst e; rw [hcp.2] at this; exact hne (Option.some.inj this.2).symm
      simp only [upd, hcc, ↓reduceIte]
      exact this
  · intro c' n hcn
    simp only [upd] at hcn
    split at hcn
    · cases hcn
    · have hp := hI.pathPlink c' n hcn
      have hne : n ≠ name := by
        intro e; subst e; rw [hpl] at hp
        rename_i hcc; exact hcc (Option.some.inj hp).symm
      simp [updS, hne, hp]
  · intro h' hmem c' hcache
    have := hI.hok h' hmem c' hcache
    refine ⟨this.1, ?_⟩
    simp only [upd]
    split
    · rename_i e; subst e
      exact Or.inr ⟨rfl, hempty⟩
    · exact this.2

theorem hok_none (st : St) (name : String) : HOk st { name := name, cache := none } := by
  intro c hc; cases hc

/-- **the invariant is preserved by every link-list operation** -/
theorem inv_step {st : St} (hI : Inv st) (op : Op) (hop : op.isListOp = true) :
    Inv (step Code.current st op).1 := by
  have hC : Core st := hI.toCore
  cases op with
  | newEntity => cases hop
  | plink _ _ => cases hop
  | punlink _ => cases hop
  | openH name create =>
    simp only [step]
    split
    · rename_i hcond
      have hs := createH5_spec hC (hok_none st name)
      obtain ⟨hc1, ⟨c, hcache, hpl⟩, htr⟩ := hs
      refine ⟨⟨hc1.noAnchor, hc1.plinkPath, hc1.pathPlink⟩, ?_⟩
      intro h' hmem
      simp only [List.mem_append, List.mem_singleton] at hmem
      rcases hmem with hm | rfl
      · rw [createH5_handles] at hm
        exact htr h' (hI.hok h' hm)
      · refine hok_of_linked hc1 hcache ?_
        rw [createH5_name]; exact hpl
    · refine ⟨⟨hC.noAnchor, hC.plinkPath, hC.pathPlink⟩, ?_⟩
      intro h' hmem
      simp only [List.mem_append, List.mem_singleton] at hmem
      rcases hmem with hm | rfl
      · exact hI.hok h' hm
      · exact hok_none st name
  | read i =>
    simp only [step]
    split
    · exact hI
    · rename_i h hget
      exact inv_setHandle hI i (getter_ok hC (hI.hok h (List.mem_of_getElem? hget)))
  | getAttr i a =>
    simp only [step]
    split
    · exact hI
    · rename_i h hget
      exact inv_setHandle hI i (getter_ok hC (hI.hok h (List.mem_of_getElem? hget)))
  | createLink i key target =>
    simp only [step]
    split
    · exact hI
    · rename_i h hget
      have hh := hI.hok h (List.mem_of_getElem? hget)
      obtain ⟨hc1, ⟨c, hcache, hpl⟩, htr⟩ := createH5_spec hC hh
      have hI1 : Inv (createH5 Code.current st h).1 :=
        ⟨hc1, fun h' hm => htr h' (hI.hok h' (by rw [createH5_handles] at hm; exact hm))⟩
      have hh1 : HOk (createH5 Code.current st h).1 (createH5 Code.current st h).2 :=
        hok_of_linked hc1 hcache (by rw [createH5_name]; exact hpl)
      have hh2 := getter_ok hc1 hh1
      split
      · exact inv_setHandle hI1 i hh2
      · rename_i c2 hc2
        have hp2 : ((createH5 Code.current st h).1.heap c2).path.isSome := by
          have := hh2 c2 hc2
          rcases this.2 with h1 | ⟨h1, hl⟩
          · simp [h1]
          · -- an orphan cannot come out of the getter right after `_create_h5obj`
            exfalso
            have hin : inFile (createH5 Code.current st h).1 c = true := by
              simp [inFile, (hc1.plinkPath _ _ hpl).2]
            have : getter Code.current (createH5 Code.current st h).1 (createH5 Code.current st h).2
                = (createH5 Code.current st h).2 := by
              unfold getter; simp [hcache, hin]
            rw [this, hcache] at hc2
            cases hc2
            rw [(hc1.plinkPath _ _ hpl).2] at h1; cases h1
        refine inv_setHandle (inv_updObj hI1 hp2 _ ?_ ?_) i (hok_updObj hp2 _ ?_ hh2) <;> rfl
  | setAttr i a v =>
    simp only [step]
    split
    · exact hI
    · rename_i h hget
      have hh := hI.hok h (List.mem_of_getElem? hget)
      obtain ⟨hc1, ⟨c, hcache, hpl⟩, htr⟩ := createH5_spec hC hh
      have hI1 : Inv (createH5 Code.current st h).1 :=
        ⟨hc1, fun h' hm => htr h' (hI.hok h' (by rw [createH5_handles] at hm; exact hm))⟩
      have hh1 : HOk (createH5 Code.current st h).1 (createH5 Code.current st h).2 :=
        hok_of_linked hc1 hcache (by rw [createH5_name]; exact hpl)
      have hh2 := getter_ok hc1 hh1
      split
      · exact inv_setHandle hI1 i hh2
      · rename_i c2 hc2
        have hp2 : ((createH5 Code.current st h).1.heap c2).path.isSome := by
          have := hh2 c2 hc2
          rcases this.2 with h1 | ⟨h1, hl⟩
          · simp [h1]
          · exfalso
            have hin : inFile (createH5 Code.current st h).1 c = true := by
              simp [inFile, (hc1.plinkPath _ _ hpl).2]
            have : getter Code.current (createH5 Code.current st h).1 (createH5 Code.current st h).2
                = (createH5 Code.current st h).2 := by
              unfold getter; simp [hcache, hin]
            rw [this, hcache] at hc2
            cases hc2
            rw [(hc1.plinkPath _ _ hpl).2] at h1; cases h1
        refine inv_setHandle (inv_updObj hI1 hp2 _ ?_ ?_) i (hok_updObj hp2 _ ?_ hh2) <;> rfl
  | delete i key dIE =>
    simp only [step]
    split
    · exact hI
    · rename_i h hget
      have hh := hI.hok h (List.mem_of_getElem? hget)
      have hh1 := getter_ok hC hh
      split
      · exact inv_setHandle hI i hh1
      · rename_i c hc
        split
        · exact inv_setHandle hI i hh1
        · rename_i hany
          -- the key is there, so `c` is not an orphan (those are empty)
          have hp : (st.heap c).path.isSome := by
            rcases (hh1 c hc).2 with h1 | ⟨_, hl⟩
            · simp [h1]
            · simp [hl] at hany
          have hpl : st.plinks h.name = some c := getter_cache_linked hC hh hc hp
          have hI1 := inv_updObj hI hp
            { st.heap c with links := (st.heap c).links.filter fun l => l.1 != key } rfl rfl
          have hh1' := hok_updObj hp
            { st.heap c with links := (st.heap c).links.filter fun l => l.1 != key } rfl hh1
          split
          · exact inv_setHandle hI1 i hh1'
          · split
            · rename_i hcond
              split
              · exact inv_setHandle hI1 i hh1'
              · refine inv_setHandle (inv_unlinkP_empty hI1 (c := c) ?_ ?_) i ?_
                · rw [getter_name]; exact hpl
                · simp only [Bool.and_eq_true, List.isEmpty_iff, decide_eq_true_eq] at hcond
                  simp [upd, hcond.1.2]
                · intro c' hc'; cases hc'
            · exact inv_setHandle hI1 i hh1'

theorem run_fst_cons (cd : Code) (st : St) (op : Op) (ops : List Op) :
    (run cd st (op :: ops)).1 = (run cd (step cd st op).1 ops).1 := by
  simp [run]

theorem inv_run {st : St} (hI : Inv st) (ops : List Op) (hops : ∀ op ∈ ops, op.isListOp = true) :
    Inv (run Code.current st ops).1 := by
  induction ops generalizing st with
  | nil => exact hI
  | cons op ops ih =>
    rw [run_fst_cons]
    exact ih (inv_step hI op (hops op (by simp))) (fun o ho => hops o (by simp [ho]))

end Nix.Handles.Lemmas
