/-!
# Py.Civil — day number ↔ civil date (proleptic Gregorian calendar)

Stand-in for the calendar arithmetic of CPython's `datetime` (`utcfromtimestamp`, `strptime`,
`datetime.__sub__`).  `datetime` counts days with the proleptic Gregorian calendar for the years
1 … 9999.  The two functions below are the classic era-based conversions (400-year eras of
146 097 days, years starting on March 1), written over `Nat` with day numbers counted from
0000-03-01; `epochShift` is the day number of 1970-01-01.  Core Lean only.
-/
namespace Nix.Civil

/-- day number of 1970-01-01 when day 0 is 0000-03-01 -/
def epochShift : Nat := 719468

/-- Gregorian leap year -/
def isLeap (y : Nat) : Bool := (y % 4 == 0 && y % 100 != 0) || y % 400 == 0

/-- number of days of month `m` (1..12) in year `y`; 0 for an invalid month -/
def daysInMonth (y m : Nat) : Nat :=
  if m == 2 then (if isLeap y then 29 else 28)
  else if m == 4 || m == 6 || m == 9 || m == 11 then 30
  else if 1 ≤ m && m ≤ 12 then 31 else 0

/-- civil date `(year, month, day)` of day number `n` (days since 0000-03-01) -/
def civilOfDay (n : Nat) : Nat × Nat × Nat :=
  let era := n / 146097
  let doe := n % 146097                                              -- [0, 146096]
  let yoe := (doe - doe / 1460 + doe / 36524 - doe / 146096) / 365   -- [0, 399]
  let y := yoe + era * 400
  let doy := doe - (365 * yoe + yoe / 4 - yoe / 100)                 -- [0, 365]
  let mp := (5 * doy + 2) / 153                                      -- [0, 11]
  let d := doy - (153 * mp + 2) / 5 + 1                              -- [1, 31]
  let m := if mp < 10 then mp + 3 else mp - 9                        -- [1, 12]
  (if m ≤ 2 then y + 1 else y, m, d)

/-- day number (days since 0000-03-01) of the civil date `y-m-d` (no validation; `y ≥ 1`) -/
def dayOfCivil (y m d : Nat) : Nat :=
  let y := if m ≤ 2 then y - 1 else y
  let era := y / 400
  let yoe := y % 400
  let doy := (153 * (if m > 2 then m - 3 else m + 9) + 2) / 5 + d - 1
  let doe := yoe * 365 + yoe / 4 - yoe / 100 + doy
  era * 146097 + doe

/-- `datetime(y, m, d)` accepts exactly these dates -/
def validDate (y m d : Nat) : Bool :=
  1 ≤ y && y ≤ 9999 && 1 ≤ m && m ≤ 12 && 1 ≤ d && d ≤ daysInMonth y m

/-- number of days from 1970-01-01 up to and excluding 2100-01-01 (= 4102444800 / 86400) -/
def days2100 : Nat := 47482

end Nix.Civil
