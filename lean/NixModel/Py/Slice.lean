import NixModel.Basic

/-!
# CPython `slice.indices` and `range`

`PySlice.indices` follows `_PySlice_GetLongIndices` (Objects/sliceobject.c), the routine behind
`slice.indices(length)`: it works on arbitrary-size integers, so `Int` is exact.  A negative
`length` (ValueError in CPython) cannot be expressed: lengths are `Nat`.

`rangeLen` / `pyRange` follow `range(start, stop, step)` (`compute_range_length` in
Objects/rangeobject.c).  Only `Init` is imported; the lemmas live in `Lemmas/C06Slice.lean`.
-/
namespace Nix.Py

/-- `slice(start, stop, step)`; `none` is Python's `None` -/
structure PySlice where
  start : Option Int := none
  stop : Option Int := none
  step : Option Int := none
  deriving DecidableEq, Repr, Inhabited

/-- `slice(None)` -/
def PySlice.full : PySlice := {}

/-- clamp of one bound (`start` or `stop`) in `_PySlice_GetLongIndices`:
negative values are taken relative to the end and clamped to `lower`;
non-negative ones are clamped to `upper` -/
def clampBound (v : Int) (len lower upper : Int) : Int :=
  if v < 0 then
    (if v + len < lower then lower else v + len)
  else
    (if v > upper then upper else v)

/-- `slice.indices(len)` → `(start, stop, step)`; step 0 ⇒ `ValueError` -/
def PySlice.indices (s : PySlice) (len : Nat) : Except Err (Int × Int × Int) :=
  let step : Int := match s.step with | none => 1 | some k => k
  if step = 0 then .error .valueError else
  let neg : Bool := decide (step < 0)
  let lower : Int := if neg then -1 else 0
  let upper : Int := if neg then (len : Int) + (-1) else (len : Int)
  let start : Int := match s.start with
    | none => if neg then upper else lower
    | some v => clampBound v len lower upper
  let stop : Int := match s.stop with
    | none => if neg then lower else upper
    | some v => clampBound v len lower upper
  .ok (start, stop, step)

/-- `len(range(lo, hi, step))` (`step ≠ 0`; 0 for `step = 0`, which `range` refuses) -/
def rangeLen (lo hi step : Int) : Nat :=
  if step > 0 then
    (if lo < hi then ((hi - lo - 1) / step + 1).toNat else 0)
  else if step < 0 then
    (if hi < lo then ((lo - hi - 1) / (-step) + 1).toNat else 0)
  else 0

/-- the arithmetic progression `start, start+step, …` of `count` terms -/
def progression (start step : Int) : Nat → List Int
  | 0 => []
  | n + 1 => start :: progression (start + step) step n

/-- `list(range(lo, hi, step))` -/
def pyRange (lo hi step : Int) : List Int := progression lo step (rangeLen lo hi step)

/-- the indices a slice selects on a sequence of length `len`: `range(*s.indices(len))` -/
def PySlice.selected (s : PySlice) (len : Nat) : Except Err (List Int) :=
  match s.indices len with
  | .ok (a, b, k) => .ok (pyRange a b k)
  | .error e => .error e

end Nix.Py
