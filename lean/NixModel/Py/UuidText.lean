import NixModel.Basic

/-!
# CPython `uuid.UUID(text)` acceptance, exactly (`nixio.util.is_uuid`)

`util.is_uuid(s)` is `UUID(str(s))` not raising `ValueError`. `UUID.__init__` (Lib/uuid.py, 3.12):

    hex = hex.replace('urn:', '').replace('uuid:', '')
    hex = hex.strip('{}').replace('-', '')
    if len(hex) != 32: raise ValueError
    int = int_(hex, 16)            # ValueError unless `int()` accepts the text in base 16

`int(text, 16)` (Objects/longobject.c `PyLong_FromUnicodeObject` / `PyLong_FromString`): every
non-ASCII character is first mapped to a blank (Unicode white space), to its ASCII digit (Unicode
decimal digits, category Nd) or to `?`; then: optional ASCII white space, optional sign, optional
`0x` / `0X` followed by at most one `_`, hexadecimal digits with single `_` between digits, optional
ASCII white space, end. (The range test `0 <= int < 2**128` cannot fail for 32 characters.)

The name / id dispatch of the structural model uses `Store.pyIsUuid` (plain, hyphenated, braced and
`urn:uuid:` spellings); this file is the *complete* acceptance function, pinned against CPython
over generated families of spellings by the correspondence of C03. Theorems: `Lemmas/C03Uuid.lean`.
-/
namespace Nix.Py

/-- `str.replace(pat, "")` for a non-empty `pat`: left to right, non-overlapping
(`skip` = characters of a match still to be dropped) -/
def removeAllAux (pat : List Char) : Nat → List Char → List Char
  | _, [] => []
  | skip + 1, _ :: cs => removeAllAux pat skip cs
  | 0, c :: cs =>
    if pat.isPrefixOf (c :: cs) then removeAllAux pat (pat.length - 1) cs
    else c :: removeAllAux pat 0 cs

def removeAll (pat s : List Char) : List Char := removeAllAux pat 0 s

/-- `str.strip(chars)` -/
def stripChars (p : Char → Bool) (cs : List Char) : List Char :=
  ((cs.dropWhile p).reverse.dropWhile p).reverse

/-- `Py_ISSPACE` -/
def isAsciiSpace (c : Char) : Bool :=
  c == ' ' || c == '\t' || c == '\n' || c == '\x0b' || c == '\x0c' || c == '\r'

/-- `Py_UNICODE_ISSPACE` above U+007F (Unicode 15.0: bidirectional type WS / B / S or category Zs) -/
def isHighSpace (c : Char) : Bool :=
  let n := c.toNat
  n == 0x85 || n == 0xA0 || n == 0x1680 || (decide (0x2000 ≤ n) && decide (n ≤ 0x200A)) ||
  n == 0x2028 || n == 0x2029 || n == 0x202F || n == 0x205F || n == 0x3000

/-- first code point ("zero") of every run of ten Unicode decimal digits (category Nd, Unicode 15.0 =
CPython 3.12's `unicodedata`; each run is ten consecutive code points with values 0..9) -/
def decimalZeros : List Nat :=
  [0x660, 0x6f0, 0x7c0, 0x966, 0x9e6, 0xa66, 0xae6, 0xb66, 0xbe6, 0xc66, 0xce6, 0xd66, 0xde6, 0xe50, 0xed0,
   0xf20, 0x1040, 0x1090, 0x17e0, 0x1810, 0x1946, 0x19d0, 0x1a80, 0x1a90, 0x1b50, 0x1bb0, 0x1c40, 0x1c50,
   0xa620, 0xa8d0, 0xa900, 0xa9d0, 0xa9f0, 0xaa50, 0xabf0, 0xff10, 0x104a0, 0x10d30, 0x11066, 0x110f0, 0x11136,
   0x111d0, 0x112f0, 0x11450, 0x114d0, 0x11650, 0x116c0, 0x11730, 0x118e0, 0x11950, 0x11c50, 0x11d50, 0x11da0,
   0x11f50, 0x16a60, 0x16ac0, 0x16b50, 0x1d7ce, 0x1d7d8, 0x1d7e2, 0x1d7ec, 0x1d7f6, 0x1e140, 0x1e2f0, 0x1e4f0,
   0x1e950, 0x1fbf0]

/-- `Py_UNICODE_TODECIMAL` above U+007F -/
def highDecimal? (c : Char) : Option Nat :=
  (decimalZeros.find? fun z => decide (z ≤ c.toNat) && decide (c.toNat < z + 10)).map fun z => c.toNat - z

/-- `_PyUnicode_TransformDecimalAndSpaceToASCII`, one character -/
def toAsciiForInt (c : Char) : Char :=
  if c.toNat ≤ 127 then c
  else if isHighSpace c then ' '
  else match highDecimal? c with
    | some d => Char.ofNat (48 + d)
    | none => '?'

def isHexDigit (c : Char) : Bool :=
  (decide ('0' ≤ c) && decide (c ≤ '9')) || (decide ('a' ≤ c) && decide (c ≤ 'f')) ||
  (decide ('A' ≤ c) && decide (c ≤ 'F'))

/-- digits with single underscores between them: starts and ends with a digit, no `__` -/
def digitsOk : List Char → Bool
  | [] => false
  | [c] => isHexDigit c
  | c :: '_' :: rest => isHexDigit c && (match rest with | '_' :: _ => false | _ => digitsOk rest)
  | c :: rest => isHexDigit c && digitsOk rest

/-- `PyLong_FromString(text, base = 16)` succeeds (the text is already ASCII-transformed) -/
def intBase16Ok (cs : List Char) : Bool :=
  let cs := cs.dropWhile isAsciiSpace
  let cs := match cs with | '+' :: r => r | '-' :: r => r | r => r
  let cs := match cs with
    | '0' :: 'x' :: '_' :: r => r
    | '0' :: 'X' :: '_' :: r => r
    | '0' :: 'x' :: r => r
    | '0' :: 'X' :: r => r
    | r => r
  -- the digits, then only white space
  let body := (cs.reverse.dropWhile isAsciiSpace).reverse
  digitsOk body

/-- `uuid.UUID(s)` does not raise ValueError, i.e. `nixio.util.is_uuid(s)` -/
def uuidAcceptsL (s : List Char) : Bool :=
  let h := removeAll "uuid:".toList (removeAll "urn:".toList s)
  let h := stripChars (fun c => c == '{' || c == '}') h
  let h := h.filter (· != '-')
  h.length == 32 && intBase16Ok (h.map toAsciiForInt)

def uuidAccepts (s : String) : Bool := uuidAcceptsL s.toList

end Nix.Py
