namespace Nix
/-- Error classes a user can catch; messages are never modelled. -/
inductive Err where
  | indexError | outOfBounds | valueError | typeError | duplicateName | keyError
  | runtimeError | invalidUnit | incompatibleDimensions | invalidFile | attributeError
  | overflowError | invalidSlice
  deriving DecidableEq, Repr, Inhabited

def Err.toString : Err → String
  | .indexError => "IndexError" | .outOfBounds => "OutOfBounds" | .valueError => "ValueError"
  | .typeError => "TypeError" | .duplicateName => "DuplicateName" | .keyError => "KeyError"
  | .runtimeError => "RuntimeError" | .invalidUnit => "InvalidUnit"
  | .incompatibleDimensions => "IncompatibleDimensions" | .invalidFile => "InvalidFile"
  | .attributeError => "AttributeError"
  | .overflowError => "OverflowError"
  | .invalidSlice => "InvalidSlice"
instance : ToString Err := ⟨Err.toString⟩
end Nix
