import Driver.Util
import Driver.C01
import Driver.C02
import Driver.C03
import Driver.C04
import Driver.C05
import Driver.C06
import Driver.C07
import Driver.C08
import Driver.C09
import Driver.C10
import Driver.C11
import Driver.C12
import Driver.C13
import Driver.C14
import Driver.C15
import Driver.C16
import Driver.C17
import Driver.C18
import Driver.C19
import Driver.C20

def main (args : List String) : IO UInt32 := do
  match args with
  | ["C01"] => Driver.C01.main; return 0
  | ["C02"] => Driver.C02.main; return 0
  | ["C03"] => Driver.C03.main; return 0
  | ["C04"] => Driver.C04.main; return 0
  | ["C05"] => Driver.C05.main; return 0
  | ["C06"] => Driver.C06.main; return 0
  | ["C07"] => Driver.C07.main; return 0
  | ["C08"] => Driver.C08.main; return 0
  | ["C09"] => Driver.C09.main; return 0
  | ["C10"] => Driver.C10.main; return 0
  | ["C11"] => Driver.C11.main; return 0
  | ["C12"] => Driver.C12.main; return 0
  | ["C13"] => Driver.C13.main; return 0
  | ["C14"] => Driver.C14.main; return 0
  | ["C15"] => Driver.C15.main; return 0
  | ["C16"] => Driver.C16.main; return 0
  | ["C17"] => Driver.C17.main; return 0
  | ["C18"] => Driver.C18.main; return 0
  | ["C19"] => Driver.C19.main; return 0
  | ["C20"] => Driver.C20.main; return 0
  | _ => IO.eprintln "usage: nixdriver <property id>  (JSON lines on stdin)"; return 2
