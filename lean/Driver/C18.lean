import Driver.Util
open Lean

namespace Driver.C18

/-- stub: replaced when the model of C18 is built -/
def main : IO Unit := pureLoop fun _ => bad "C18: model driver not built yet"

end Driver.C18
