import Driver.Util
import NixModel.Pure.Upgrade
import NixModel.Pure.UpgradeInside
import NixModel.Pure.UpgradeRead
import NixModel.Generated.UpgradeShape
open Lean Nix.Upgrade

namespace Driver.C18

/-! line protocol (one JSON array per line):
 * `["history", lib, file, [k₁, k₂, …]]` — invocation `i` (run tag `i`, 1-based) of the upgrade on the
   file left by invocation `i-1`, interrupted before its `kᵢ`-th step (`null` = not interrupted; `[k, c]` =
   inside step `k`, at its `(c+1)`-th `create_property` call);
   answer: per invocation `{"steps": …, "file": …, "err": …}`
 * `["stale", lib, file, k]` — two task lists collected up front; the first processed (interrupted before
   step `k` / completely for `null`), then the stale second one completely
 * `["collect", lib, file]`, `["openrw", lib, file]`, `["view", file]`, `["is_uuid", text]`
 * `["readvals", file]` — `Property.values` of every dataset below /metadata as the header version makes nixio read it
   (the bound of the switch is the one regenerated from nixio/property.py): the values, `"raises"` or `"records"`
-/

def optStr (j : Json) : Option String := match j with | .str s => some s | _ => none

def parseRat (s : String) : Option Rat :=
  match s.splitOn "/" with
  | [n, d] => match n.toInt?, d.toNat? with
    | some n, some d => if d == 0 then none else some (mkRat n d)
    | _, _ => none
  | _ => none

/-- a double: `"num/den"`, `"nan"`, `"inf"`, `"-inf"` -/
def parseFlt (s : String) : Option Flt :=
  if s == "nan" then some .nan
  else if s == "inf" then some (.inf false)
  else if s == "-inf" then some (.inf true)
  else (parseRat s).map .fin

def fltStr : Flt → String
  | .fin r => ratStr r
  | .nan => "nan"
  | .inf false => "inf"
  | .inf true => "-inf"

def parseVal (j : Json) : Option Val :=
  match jArr j |>.toList with
  | [Json.str "s", Json.str s] => some (.str s)
  | [Json.str "i", v] => (jInt? v).map .int
  | [Json.str "f", Json.str s] => (parseFlt s).map .flt
  | [Json.str "b", Json.bool b] => some (.bool b)
  | _ => none

def field (j : Json) (k : String) : Json := (j.getObjVal? k).toOption.getD Json.null

def parseRow (j : Json) : Option OldRow :=
  match jArr j |>.toList with
  | [v, Json.str u, Json.str r, Json.str f, Json.str e, Json.str c] => do
    let v ← parseVal v
    let u ← parseFlt u
    pure ⟨v, u, r, f, e, c⟩
  | _ => none

def parseId (j : Json) : Option Id :=
  match j with
  | .str s => some (.orig s)
  | _ => match (field j "fresh").getNat? with | .ok n => some (.fresh n) | _ => none

def parseStamp (j : Json) : Option Stamp :=
  match j with
  | .str s => some (.orig s)
  | _ => match (field j "now").getNat? with | .ok n => some (.now n) | _ => none

def parsePObj (j : Json) : Option PObj :=
  let o := field j "old"
  let n := field j "new"
  if !isNull o then do
    let rows ← (jArr (field o "rows")).toList.mapM parseRow
    pure (.old ⟨jStr (field o "dtype"), rows, optStr (field o "definition"), optStr (field o "unit")⟩)
  else if !isNull n then do
    let vals ← (jArr (field n "values")).toList.mapM parseVal
    let id ← parseId (field n "id")
    let c ← parseStamp (field n "created")
    let u ← parseStamp (field n "updated")
    let unc ← match field n "uncertainty" with
      | .str s => (parseFlt s).map some
      | _ => some none
    pure (.new ⟨id, c, u, jStr (field n "dtype"), vals, optStr (field n "definition"),
                optStr (field n "unit"), unc⟩)
  else none

def parseProp (j : Json) : Option (Path × PObj) := do
  let o ← parsePObj j
  pure ((jArr (field j "path")).toList.map jStr, o)

def parseLink (j : Json) : Option (Option Link) :=
  if isNull j then some none else do
    let id ← parseId (field j "id")
    let c ← parseStamp (field j "created")
    let u ← parseStamp (field j "updated")
    let idx ← (jArr (field j "index")).toList.mapM jInt?
    pure (some ⟨id, c, u, jStr (field j "dot"), idx, jStr (field j "target")⟩)

def parseDim (j : Json) : Option Dim := do
  let l ← parseLink (field j "link")
  pure ⟨jStr (field j "name"), jStr (field j "type"), optStr (field j "ticks"), optStr (field j "unit"),
        optStr (field j "label"), jBool (field j "alias"), l⟩

def parseArr (j : Json) : Option Arr := do
  let ds ← (jArr (field j "dims")).toList.mapM parseDim
  pure ⟨jStr (field j "path"), jStr (field j "id"), jStr (field j "data"), optStr (field j "unit"),
        optStr (field j "label"), ds⟩

def parseNats (j : Json) : Option (List Nat) :=
  (jArr j).toList.mapM fun x => match x.getNat? with | .ok n => some n | _ => none

def parseFile (j : Json) : Option File := do
  let ver ← parseNats (field j "version")
  let ps ← (jArr (field j "props")).toList.mapM parseProp
  let as ← (jArr (field j "arrays")).toList.mapM parseArr
  let id : FileId := match field j "id" with
    | .str s => .text s
    | x => match (field x "fresh").getNat? with | .ok n => .fresh n | _ => .absent
  pure ⟨ver, id, ps, as, jStr (field j "other")⟩

/-! output -/

def oStr (o : Option String) : Json := match o with | some s => .str s | none => .null
def jNat (n : Nat) : Json := Json.num (JsonNumber.fromNat n)
def jI (i : Int) : Json := Json.num (JsonNumber.fromInt i)

def valJ : Val → Json
  | .str s => .arr #[.str "s", .str s]
  | .int i => .arr #[.str "i", jI i]
  | .flt x => .arr #[.str "f", .str (fltStr x)]
  | .bool b => .arr #[.str "b", .bool b]

def idJ : Id → Json | .orig s => .str s | .fresh n => Json.mkObj [("fresh", jNat n)]
def stampJ : Stamp → Json | .orig s => .str s | .now n => Json.mkObj [("now", jNat n)]

def pobjJ (p : Path) : PObj → Json
  | .old o => Json.mkObj [("path", .arr (p.map Json.str).toArray), ("old", Json.mkObj [
      ("dtype", .str o.dtype),
      ("rows", .arr (o.rows.map fun r => Json.arr #[valJ r.value, .str (fltStr r.uncertainty),
          .str r.reference, .str r.filename, .str r.encoder, .str r.checksum]).toArray),
      ("definition", oStr o.definition), ("unit", oStr o.unit)])]
  | .new n => Json.mkObj [("path", .arr (p.map Json.str).toArray), ("new", Json.mkObj [
      ("id", idJ n.id), ("created", stampJ n.created), ("updated", stampJ n.updated),
      ("dtype", .str n.dtype), ("values", .arr (n.values.map valJ).toArray),
      ("definition", oStr n.definition), ("unit", oStr n.unit),
      ("uncertainty", match n.uncertainty with | some r => .str (fltStr r) | none => .null)])]

def linkJ : Option Link → Json
  | none => .null
  | some l => Json.mkObj [("id", idJ l.id), ("created", stampJ l.created), ("updated", stampJ l.updated),
      ("dot", .str l.dataObjectType), ("index", .arr (l.index.map jI).toArray), ("target", .str l.target)]

def dimJ (d : Dim) : Json :=
  Json.mkObj [("name", .str d.name), ("type", .str d.dimType), ("ticks", oStr d.ticks), ("unit", oStr d.unit),
    ("label", oStr d.label), ("alias", .bool d.alias), ("link", linkJ d.link)]

def arrJ (a : Arr) : Json :=
  Json.mkObj [("path", .str a.path), ("id", .str a.id), ("data", .str a.data), ("unit", oStr a.unit),
    ("label", oStr a.label), ("dims", .arr (a.dims.map dimJ).toArray)]

def fileJ (f : File) : Json :=
  Json.mkObj [("version", .arr (f.version.map jNat).toArray),
    ("id", match f.id with | .absent => .null | .text s => .str s | .fresh n => Json.mkObj [("fresh", jNat n)]),
    ("props", .arr (f.props.map fun e => pobjJ e.1 e.2).toArray),
    ("arrays", .arr (f.arrays.map arrJ).toArray), ("other", .str f.other)]

def stepJ : Step → Json
  | .addId => .arr #[.str "id"]
  | .prop p => .arr #[.str "prop", .arr (p.map Json.str).toArray]
  | .dim a d => .arr #[.str "dim", .str a, .str d]
  | .bump => .arr #[.str "bump"]

def errJ : Option Nix.Err → Json | none => .null | some e => .str e.toString

def history (lib : List Nat) (f : File) (ks : List Json) : Json :=
  let rec go (run : Nat) (f : File) (ks : List Json) (acc : Array Json) : Array Json :=
    match ks with
    | [] => acc
    | k :: ks =>
      let steps := collect lib f
      let r := match k with
        | .arr #[a, b] => match a.getNat?, b.getNat? with
          | .ok k, .ok c => interruptInside lib run k c f
          | _, _ => upgrade lib run f
        | _ => match k.getNat? with
          | .ok k => interrupt lib run k f
          | _ => upgrade lib run f
      go (run + 1) r.1 ks (acc.push (Json.mkObj [("steps", .arr (steps.map stepJ).toArray),
        ("file", fileJ r.1), ("err", errJ r.2)]))
  .arr (go 1 f ks #[])

/-- two task lists collected up front (as `main` does for a file named twice): the first is processed
(interrupted before step `k`, or completely), then the second, stale one completely -/
def stale (lib : List Nat) (f : File) (k : Json) : Json :=
  let steps := collect lib f
  let r1 := match k.getNat? with
    | .ok k => runSteps lib 1 f (steps.take k)
    | _ => runSteps lib 1 f steps
  let r2 := runSteps lib 2 r1.1 steps
  .arr #[Json.mkObj [("file", fileJ r1.1), ("err", errJ r1.2)],
         Json.mkObj [("file", fileJ r2.1), ("err", errJ r2.2)]]

def viewJ (f : File) : Json :=
  let ratsJ (o : Option (List Flt)) : Json := match o with
    | none => .null | some l => .arr (l.map fun r => Json.str (fltStr r)).toArray
  let strsJ (o : Option (List String)) : Json := match o with
    | none => .null | some l => .arr (l.map Json.str).toArray
  Json.mkObj [
    ("props", .arr (f.props.map fun e =>
      let v := e.2.view
      Json.mkObj [("path", .arr (e.1.map Json.str).toArray), ("dtype", .str v.dtype),
        ("values", .arr (v.values.map valJ).toArray), ("definition", oStr v.definition), ("unit", oStr v.unit),
        ("uncertainty", ratsJ (extraUnc f.props e.1)),
        ("reference", strsJ (extraStr f.props e.1 ".reference")),
        ("filename", strsJ (extraStr f.props e.1 ".filename")),
        ("encoder", strsJ (extraStr f.props e.1 ".encoder")),
        ("checksum", strsJ (extraStr f.props e.1 ".checksum"))]).toArray),
    ("dims", .arr (f.arrays.flatMap fun a => a.dims.map fun d =>
      let v := readDim a d
      Json.mkObj [("array", .str a.path), ("name", .str d.name), ("ticks", .str v.ticks),
        ("unit", oStr v.unit), ("label", oStr v.label)]).toArray)]

def readvalsJ (f : File) : Json :=
  .arr (f.props.map fun e =>
    Json.mkObj [("path", .arr (e.1.map Json.str).toArray),
      ("out", match readValues Nix.Upgrade.Gen.valuesOldBelow f.version e.2 with
        | .values vs => .arr (vs.map valJ).toArray
        | .raises => .str "raises"
        | .records => .str "records")]).toArray

def handle (j : Json) : Json :=
  match jArr j |>.toList with
  | [Json.str "history", lib, file, ks] =>
    match parseNats lib, parseFile file with
    | some lib, some f => ok (history lib f (jArr ks).toList)
    | _, _ => bad "C18: malformed file"
  | [Json.str "stale", lib, file, k] =>
    match parseNats lib, parseFile file with
    | some lib, some f => ok (stale lib f k)
    | _, _ => bad "C18: malformed file"
  | [Json.str "collect", lib, file] =>
    match parseNats lib, parseFile file with
    | some lib, some f => ok (.arr ((collect lib f).map stepJ).toArray)
    | _, _ => bad "C18: malformed file"
  | [Json.str "openrw", lib, file] =>
    match parseNats lib, parseFile file with
    | some lib, some f => match openRW lib f with | .ok _ => ok .null | .error e => err e
    | _, _ => bad "C18: malformed file"
  | [Json.str "view", file] =>
    match parseFile file with
    | some f => ok (viewJ f)
    | none => bad "C18: malformed file"
  | [Json.str "readvals", file] =>
    match parseFile file with
    | some f => ok (readvalsJ f)
    | none => bad "C18: malformed file"
  | [Json.str "is_uuid", Json.str s] => ok (.bool (isUuid s))
  | _ => bad "C18: unknown op"

def main : IO Unit := pureLoop handle

end Driver.C18
