import Driver.Util
open Lean

namespace Driver.C05

/-- stub: replaced when the model of C05 is built -/
def main : IO Unit := pureLoop fun _ => bad "C05: model driver not built yet"

end Driver.C05
