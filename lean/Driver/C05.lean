import Driver.Store
import NixModel.Pure.DimLink
import NixModel.Store.AcceptShape
import NixModel.Pure.DimLinkCopy
open Lean Nix.Store Nix.DimLink

/-! C05 driver: the structural model's line protocol (`Driver.Store.step`) on the graph part of the
state, plus arrays with content, dimension descriptors and dimension links (`Pure/DimLink.lean`). -/
namespace Driver.C05

def parseRat (j : Json) : Option Rat :=
  match j with
  | .str s =>
    match s.splitOn "/" with
    | [n, d] => match n.toInt?, d.toNat? with
      | some a, some b => if b == 0 then none else some (mkRat a b)
      | _, _ => none
    | [n] => n.toInt?.map fun a => (a : Rat)
    | _ => none
  | .num _ => (jInt? j).map fun a => (a : Rat)
  | _ => none

def parseRats (j : Json) : Option (List Rat) :=
  match j with
  | .arr a => a.toList.mapM parseRat
  | _ => none

def parseStrs (j : Json) : Option (List String) :=
  match j with
  | .arr a => a.toList.mapM fun x => match x with | .str s => some s | _ => none
  | _ => none

def parseInts (j : Json) : Option (List Int) :=
  match j with
  | .arr a => a.toList.mapM jInt?
  | _ => none

def parseNats (j : Json) : Option (List Nat) := (parseInts j).map fun l => l.map Int.toNat

def optStr (j : Json) : Option String := match j with | .str s => some s | _ => none

def jOptStr (o : Option String) : Json := match o with | some s => Json.str s | none => Json.null

def jRats (l : List Rat) : Json := Json.arr (l.map fun r => Json.str (ratStr r)).toArray

def exJson {α : Type} (r : Except Nix.Err α) (f : α → Json) : Json :=
  match r with
  | .ok v => f v
  | .error e => Json.mkObj [("err", Json.str e.toString)]

def applyS (s : DState) (r : Except Nix.Err DState) : DState × Json :=
  match r with
  | .ok s' => (s', ok Json.null)
  | .error e => (s, err e)

def parseSpec (j : Json) : Option DimSpec :=
  match j.getObjVal? "kind" with
  | .ok (.str "set") =>
    match j.getObjVal? "labels" with
    | .ok (.arr a) => (parseStrs (.arr a)).map fun l => DimSpec.set (some l)
    | _ => some (.set none)
  | .ok (.str "sampled") => some .sampled
  | .ok (.str "range") =>
    let label := match j.getObjVal? "label" with | .ok x => optStr x | _ => none
    let unit := match j.getObjVal? "unit" with | .ok x => optStr x | _ => none
    match j.getObjVal? "ticks" with
    | .ok (.arr a) => (parseRats (.arr a)).map fun l => DimSpec.range (some l) label unit
    | _ => some (.range none label unit)
  | _ => none

/-- everything an entity handle shows: identity, the string attributes, the stored data -/
def readEntity (s : DState) (k : Nat) : Json :=
  let g := s.g
  Json.mkObj [
    ("ident", Driver.Store.ident g k),
    ("type", jOptStr (g.getAttr k "type")),
    ("definition", jOptStr (g.getAttr k "definition")),
    ("unit", jOptStr (g.getAttr k "unit")),
    ("label", jOptStr (g.getAttr k "label")),
    ("data", match dataOf s k with
      | some d => Json.mkObj [("shape", Json.arr (d.shape.map fun (n : Nat) => Json.num (JsonNumber.fromNat n)).toArray), ("vals", jRats d.vals)]
      | none => Json.null),
    -- `DataFrame.units` (null for anything but a frame, and for a frame without units)
    ("units", match (frameOf s k).bind frameUnits with
      | some us => Json.arr (us.map jOptStr).toArray
      | none => Json.null)]

def readDim (s : DState) (dn : Nat) : Json :=
  let g := s.g
  let kind := kindOf g dn
  let ln := g.child? dn "link"
  Json.mkObj [
    ("kind", Json.str kind),
    ("has_link", Json.bool (hasLink g dn)),
    ("is_alias", if kind == kDimRange then Json.bool (isAlias s dn) else Json.null),
    ("ticks", if kind == kDimRange then exJson (readTicks s dn) jRats else Json.null),
    ("labels", if kind == kDimSet then
        exJson (readLabels s dn) fun l => match l with
          | .strs x => Json.mkObj [("strs", Json.arr (x.map Json.str).toArray)]
          | .nums x => Json.mkObj [("nums", jRats x)]
      else Json.null),
    ("unit", if kind == kDimSet then Json.null else exJson (readDimAttr s dn "unit") jOptStr),
    ("label", exJson (readDimAttr s dn "label") jOptStr),
    ("link_id", match ln with | some l => jOptStr (g.entityId l) | none => Json.null),
    ("index", match ln.bind (look s.index) with
      | some iv => Json.arr (iv.map fun i => Json.num (JsonNumber.fromInt i)).toArray
      | none => Json.null),
    ("link_type", match ln with | some _ => Json.str (linkType g dn) | none => Json.null),
    ("target", match ln, linkTarget g dn with
      | some _, some t => Driver.Store.ident g t
      | some _, none => Json.str "dangling"
      | none, _ => Json.null)]

def storeOps : List String :=
  ["noop", "create_block", "create_section", "create", "create_property", "create_feature", "del", "append",
   "set_role", "set_attr", "len", "list", "get", "has", "role", "dump"]

def step (s : DState) (j : Json) : DState × Json :=
  let g := s.g
  match (jArr j).toList with
  | [.str "reset"] => ({}, ok Json.null)
  | [.str "create_da", pj, nm, .str ty, shj, vj] =>
    match Driver.Store.parsePath pj, Driver.Store.parseName g nm, parseNats shj, parseRats vj with
    | some p, some name, some sh, some vs => applyS s (createArray s p name ty sh vs)
    | _, _, _, _ => (s, bad "args")
  | [.str "da_write", pj, vj] =>
    match Driver.Store.parsePath pj, parseRats vj with
    | some p, some vs => applyS s (writeData s p vs)
    | _, _ => (s, bad "args")
  | [.str "read", pj] =>
    match (Driver.Store.parsePath pj).bind fun p => resolve g rootLoc p with
    | some l => (s, ok (readEntity s l.key))
    | none => (s, bad "path")
  | [.str "dim_append", pj, sj] =>
    match Driver.Store.parsePath pj, parseSpec sj with
    | some p, some spec => applyS s (appendDim s p spec)
    | _, _ => (s, bad "args")
  | [.str "dim_link", pj, ij, tj, ivj] =>
    match Driver.Store.parsePath pj, jInt? ij, Driver.Store.resolveKey g tj, parseInts ivj with
    | some p, some i, some t, some iv => applyS s (linkDataArray s p i.toNat t iv)
    | _, _, _, _ => (s, bad "args")
  | [.str "create_df", pj, nm, .str ty, cj, uj, rj] =>
    -- `null`: the frame is made without units (no `units` attribute); a list: `frame.units = list` follows
    let units : Option (Option (List (Option String))) := match uj with
      | .arr a => some (some (a.toList.map optStr))
      | .null => some none
      | _ => none
    let rows : Option (List (List Rat)) := match rj with
      | .arr a => a.toList.mapM parseRats
      | _ => none
    match Driver.Store.parsePath pj, Driver.Store.parseName g nm, parseStrs cj, units, rows with
    | some p, some name, some cols, some us, some rs => applyS s (createFrame s p name ty cols us rs)
    | _, _, _, _, _ => (s, bad "args")
  | [.str "df_set_units", pj, .arr a] =>
    match Driver.Store.parsePath pj with
    | some p => applyS s (setUnits s p (a.toList.map optStr))
    | none => (s, bad "args")
  | [.str "df_write_col", pj, cj, vj] =>
    match Driver.Store.parsePath pj, jInt? cj, parseRats vj with
    | some p, some c, some vs => applyS s (writeColumn s p c.toNat vs)
    | _, _, _ => (s, bad "args")
  | [.str "dim_link_df", pj, ij, tj, cj] =>
    match Driver.Store.parsePath pj, jInt? ij, Driver.Store.resolveKey g tj, jInt? cj with
    | some p, some i, some t, some c => applyS s (linkDataFrame s p i.toNat t c)
    | _, _, _, _ => (s, bad "args")
  | [.str "copy_into", dp, .str what, sp, .str name, .bool keep] =>
    -- `Block.create_data_array / create_tag / create_multi_tag (copy_from=…, name=…, keep_copy_id=…)`
    match Driver.Store.parsePath dp, Driver.Store.resolveKey g sp with
    | some dpath, some k => applyS s (copyInto s dpath what k name keep)
    | _, _ => (s, bad "paths")
  | [.str "dim_unlink", pj, ij] =>
    match Driver.Store.parsePath pj, jInt? ij with
    | some p, some i => applyS s (removeLink s p i.toNat)
    | _, _ => (s, bad "args")
  | [.str "dim_set_ticks", pj, ij, tj] =>
    match Driver.Store.parsePath pj, jInt? ij, parseRats tj with
    | some p, some i, some ts => applyS s (setTicks s p i.toNat ts)
    | _, _, _ => (s, bad "args")
  | [.str "dim_set_labels", pj, ij, lj] =>
    match Driver.Store.parsePath pj, jInt? ij, parseStrs lj with
    | some p, some i, some ls => applyS s (setLabels s p i.toNat ls)
    | _, _, _ => (s, bad "args")
  | [.str "dim_set_attr", pj, ij, .str attr, v] =>
    match Driver.Store.parsePath pj, jInt? ij with
    | some p, some i => applyS s (setDimAttr s p i.toNat attr (optStr v))
    | _, _ => (s, bad "args")
  | [.str "dim_read", pj, ij] =>
    match Driver.Store.parsePath pj, jInt? ij with
    | some p, some i =>
      match dimAt s p i.toNat with
      | .ok dn => (s, ok (readDim s dn))
      | .error _ => (s, bad "no such dimension")
    | _, _ => (s, bad "args")
  | [.str "dim_count", pj] =>
    match Driver.Store.parsePath pj with
    | some p =>
      match arrayAt s p with
      | .ok a => (s, ok (Json.num (dimCount g a)))
      | .error _ => (s, bad "no such array")
    | none => (s, bad "args")
  | .str opname :: _ =>
    if storeOps.contains opname then
      let (g', out) := Driver.Store.step g j
      ({ s with g := g' }, out)
    else (s, bad "C05: unknown op")
  | _ => (s, bad "C05: unknown op")

/-! ### kept handles and `extend`

A program keeps the handle of an entity (`["hold", h, path]`) and offers it later — after the entity was deleted from
its block, after another one was created under its name — to link lists, role links and features.  A handle is the
node's key: HDF5 keeps an object alive as long as a handle to it is open, the model never drops a node. -/

structure HState where
  s : DState := {}
  held : List (String × Handle) := []

/-- the node the kept handle stands for NOW (`Handle.node`: it follows its name in its parent group) -/
def heldKey (h : HState) (name : String) : Option Nat :=
  (h.held.find? (fun e => e.1 == name)).map fun e => e.2.node h.s.g

/-- a key of `has`: `{"h": name}` = the kept handle, anything else as in the store protocol -/
def parseKeyH (h : HState) (j : Json) : Option Key :=
  match j.getObjVal? "h" with
  | .ok (.str name) => (heldKey h name).map Key.ent
  | _ => Driver.Store.parseKey h.s.g j

def heldHandle (h : HState) (name : String) : Option Handle := (h.held.find? (fun e => e.1 == name)).map (·.2)

/-- an item of `extend`: a kept handle or a key argument of the structural model (resolved when the op runs) -/
def parseItem (h : HState) (j : Json) : Option ItemArg :=
  match j.getObjVal? "h" with
  | .ok (.str name) => (heldHandle h name).map ItemArg.handle
  | _ =>
  match j.getObjVal? "s" with
  | .ok (.str s) => some (.key (.str s))
  | _ =>
  match j.getObjVal? "id" with
  | .ok pj => (Driver.Store.parsePath pj).map fun p => ItemArg.key (.idOf p)
  | _ =>
  match j.getObjVal? "nameof" with
  | .ok pj => (Driver.Store.parsePath pj).map fun p => ItemArg.key (.nameOf p)
  | _ =>
  match j.getObjVal? "p" with
  | .ok n => (jInt? n).map fun i => ItemArg.key (.pos i)
  | _ =>
  match j.getObjVal? "o" with
  | .ok pj => (Driver.Store.parsePath pj).map fun p => ItemArg.key (.obj p)
  | _ => none

/-- run one operation of the handle histories (`Store/AcceptShape.lean`, `applyH`): what the theorems
`detached_stays_detached` / `deleted_entity_refused_forever` quantify over -/
def runHOp (h : HState) (op : HOp) : HState × Json :=
  match applyH h.s.g op with
  | some (.ok g') => ({ h with s := { h.s with g := g' } }, ok Json.null)
  | some (.error e) => (h, err e)
  | none => (h, bad "op cannot be formed")

def stepH (h : HState) (j : Json) : HState × Json :=
  let g := h.s.g
  match (jArr j).toList with
  | [.str "reset"] => ({}, ok Json.null)
  | [.str "hold", .str name, pj] =>
    match (Driver.Store.parsePath pj).bind fun p => resolve g rootLoc p with
    | some l => ({ h with held := (name, Handle.ofLoc l) :: h.held.filter (fun e => e.1 != name) },
                 ok (Driver.Store.ident g l.key))
    | none => (h, bad "path")
  | [.str "read_h", .str name] =>
    match heldKey h name with
    | some k => (h, ok (readEntity h.s k))
    | none => (h, bad "handle")
  | [.str "append_h", pj, .str cname, kj] =>
    match Driver.Store.parsePath pj, kj.getObjVal? "h" with
    | some p, .ok (.str name) =>
      match heldHandle h name with
      | some hd => runHOp h (.appendH p cname hd)
      | none => (h, bad "handle")
    | _, _ => (h, bad "args")
  | [.str "extend", pj, .str cname, .arr ks] =>
    match Driver.Store.parsePath pj, ks.toList.mapM (parseItem h) with
    | some p, some items => runHOp h (.extend p cname items)
    | _, _ => (h, bad "args")
  | [.str "has_h", pj, .str cname, kj] =>
    match (Driver.Store.parsePath pj).bind fun p => openCont g p cname with
    | some c =>
      match parseKeyH h kj with
      | some key =>
        match contHas g c key with
        | .ok b => (h, ok (Json.bool b))
        | .error e => (h, err e)
      | none => (h, bad "key")
    | none => (h, bad "container")
  | [.str "set_role_h", pj, .str role, .str name] =>
    match Driver.Store.parsePath pj, heldHandle h name with
    | some p, some hd => runHOp h (.setRoleH p role hd)
    | _, _ => (h, bad "args")
  | [.str "create_feature_h", pj, .str name, .str lt] =>
    match Driver.Store.parsePath pj, heldHandle h name with
    | some p, some hd => runHOp h (.createFeatureH p hd lt)
    | _, _ => (h, bad "args")
  | _ =>
    let (s', out) := step h.s j
    ({ h with s := s' }, out)

def main : IO Unit := loop ({} : HState) stepH

end Driver.C05
