import Driver.Store

namespace Driver.C05

/-- C05 is decided on the structural (HDF5 graph) model: same driver for C02 C03 C04 C05 C12 C20 -/
def main : IO Unit := Driver.Store.main

end Driver.C05
