import Driver.Util
import NixModel.Pure.Tree
import NixModel.Pure.TreeShape
import NixModel.Pure.TreeIds
import NixModel.Pure.TreeIdsRef
import NixModel.Pure.TreeIdsRel
import NixModel.Pure.TreeIdsHist
import NixModel.Generated.FindShape
import NixModel.Generated.IdLookup
open Lean Nix Nix.Tree Nix.Tree.Shape Nix.Tree.Ids Nix.Generated

namespace Driver.C13

def jNat? (j : Json) : Option Nat :=
  match jInt? j with
  | some i => if i ≥ 0 then some i.toNat else none
  | none => none

def kind? : String → Option Kind
  | "group" => some .group
  | "data_array" => some .dataArray
  | "tag" => some .tag
  | "multi_tag" => some .multiTag
  | _ => none

def jKey (k : Nat) : Json := Json.num (JsonNumber.fromNat k)
def jKeys (l : List Nat) : Json := Json.arr (l.map jKey).toArray
def jOptKey : Option Nat → Json
  | some k => jKey k
  | none => Json.null

/-- filters the harness can also express as a Python lambda -/
def filter? (j : Json) : Option (Node → Bool) :=
  match (jArr j).toList with
  | [Json.str "all"] => some fun _ => true
  | [Json.str "none"] => some fun _ => false
  | [Json.str "name", Json.str s] => some fun n => n.name == s
  | [Json.str "type", Json.str s] => some fun n => n.type == s
  | [Json.str "not_name", Json.str s] => some fun n => n.name != s
  | [Json.str "name_or_type", Json.str a, Json.str b] => some fun n => n.name == a || n.type == b
  | [Json.str "name_and_type", Json.str a, Json.str b] => some fun n => n.name == a && n.type == b
  | _ => none

/-- the model rejects (as malformed) names/types nixio's name check refuses; C13 is not about them -/
def validName (s : String) : Bool := !s.isEmpty && !(s.toList.contains '/')

def doOp (f : File) (op : Op) : File × Json :=
  match step f op with
  | .ok (f', some k) => (f', ok (jKey k))
  | .ok (f', none) => (f', ok Json.null)
  | .error e => (f, err e)

def exceptKeys (r : Except Err (List Nat)) : Json :=
  match r with
  | .ok v => ok (jKeys v)
  | .error e => err e

/-- the public search method of a class, as extracted from the source -/
def wrapper? (cls method : String) : Option Wrapper :=
  FindShape.wrappers.find? fun w => w.cls == cls && w.method == method

def exceptKey (r : Except Err (Option Nat)) : Json :=
  match r with
  | .ok v => ok (jOptKey v)
  | .error e => err e

/-- `texts`: the id text stored for every key (supplied ones as `Section.create_new` stores them, the others a
library-made text); `Section.parent` / `Source.parent_source` compare these, through the look-up chain as extracted
(`Generated/IdLookup.lean`, interpreted by `Pure/TreeIds.lean`) -/
def handle (texts : Nat → String) (f : File) (j : Json) : File × Json :=
  match (jArr j).toList with
  | [Json.str "reset"] => ({}, ok Json.null)
  | [Json.str "create_block", Json.str n, Json.str t] =>
    if validName n && !t.isEmpty then doOp f (.createBlock n t) else (f, bad "C13: invalid name/type")
  | [Json.str "create_section", p, Json.str n, Json.str t] =>
    if !(validName n && !t.isEmpty) then (f, bad "C13: invalid name/type") else
    if isNull p then doOp f (.createSection none n t) else
    match jNat? p with
    | some pk => doOp f (.createSection (some pk) n t)
    | none => (f, bad "C13: parent")
  | [Json.str "create_source", p, Json.str n, Json.str t] =>
    if !(validName n && !t.isEmpty) then (f, bad "C13: invalid name/type") else
    match jNat? p with
    | some pk => doOp f (.createSource pk n t)
    | none => (f, bad "C13: parent")
  | [Json.str "create_holder", b, Json.str k, Json.str n, Json.str t] =>
    if !(validName n && !t.isEmpty) then (f, bad "C13: invalid name/type") else
    match jNat? b, kind? k with
    | some bk, some kd => doOp f (.createHolder bk kd n t)
    | _, _ => (f, bad "C13: create_holder")
  | [Json.str "set_metadata", e, s] =>
    match jNat? e, jNat? s with
    | some e, some s => doOp f (.setMetadata e s)
    | _, _ => (f, bad "C13: set_metadata")
  | [Json.str "del_metadata", e] =>
    match jNat? e with
    | some e => doOp f (.delMetadata e)
    | _ => (f, bad "C13: del_metadata")
  | [Json.str "link_source", h, s] =>
    match jNat? h, jNat? s with
    | some h, some s => doOp f (.linkSource h s)
    | _, _ => (f, bad "C13: link_source")
  | [Json.str "unlink_source", h, s] =>
    match jNat? h, jNat? s with
    | some h, some s => doOp f (.unlinkSource h s)
    | _, _ => (f, bad "C13: unlink_source")
  | [Json.str "delete", k] =>
    match jNat? k with
    | some k => doOp f (.delete k)
    | _ => (f, bad "C13: delete")
  | [Json.str "reopen"] => doOp f .reopen
  | [Json.str "copy_section", src, dest, Json.str n, Json.bool ch] =>
    if !(n.isEmpty || validName n) then (f, bad "C13: invalid name") else
    match jNat? src, (if isNull dest then some none else (jNat? dest).map some) with
    | some s, some d => doOp f (.copySection s d n ch)
    | _, _ => (f, bad "C13: copy_section")
  -- queries ------------------------------------------------------------------------------
  | [Json.str "find", root, filt, limit] =>
    match filter? filt, (if isNull limit then some none else (jNat? limit).map some) with
    | some fl, some lim =>
      -- the method of the class as `Generated/FindShape.lean` has it, interpreted by `Pure/TreeShape.lean`
      let res (cls method : String) (r : Root) : File × Json :=
        match wrapper? cls method with
        | some w => (f, exceptKeys ((findW w r fl lim).map fun l => l.map Node.key))
        | none => (f, bad "C13: no such search method in the source")
      match root with
      | Json.str "file" => res "File" "find_sections" (.top f.sections)
      | _ =>
        match jNat? root with
        | none => (f, bad "C13: find root")
        | some k =>
          match f.lookup k with
          | some (.sec n) => res "Section" "find_sections" (.node n)
          | some (.src _ n) => res "Source" "find_sources" (.node n)
          | some (.blk b) => res "Block" "find_sources" (.top b.sources)
          | _ => (f, err .keyError)
    | _, _ => (f, bad "C13: find filter/limit")
  | [Json.str "parent", k, via] =>
    match jNat? k with
    | none => (f, bad "C13: parent")
    | some k =>
      match via with
      | Json.str "cached" => (f, exceptKey (sectionParentT FindShape.sectionParent IdLookup.shape texts f k true))
      | Json.str "fresh" => (f, exceptKey (sectionParentT FindShape.sectionParent IdLookup.shape texts f k false))
      | _ =>
        -- ["md", e]: the handle is `e.metadata`
        match (jArr via).toList with
        | [Json.str "md", e] =>
          match jNat? e with
          | none => (f, bad "C13: parent via")
          | some e =>
            let md : Option (Option Nat) := match f.lookup e with
              | some (.blk b) => some b.md
              | some (.hold _ h) => some h.md
              | some (.src _ n) => some n.md
              | _ => none
            if md == some (some k) then (f, exceptKey (sectionParentT FindShape.sectionParent IdLookup.shape texts f k false)) else (f, err .keyError)
        | _ => (f, bad "C13: parent via")
  | [Json.str "parent_source", k, via] =>
    match jNat? k with
    | none => (f, bad "C13: parent_source")
    | some k =>
      match via with
      | Json.str "fresh" => (f, exceptKey (sourceParentT FindShape.sourceParent IdLookup.shape texts f k))
      | _ =>
        match (jArr via).toList with
        | [Json.str "link", h] =>
          match (jNat? h).bind f.lookup with
          | some (.hold _ h) =>
            if h.srcs.contains k then (f, exceptKey (sourceParentT FindShape.sourceParent IdLookup.shape texts f k)) else (f, err .keyError)
          | _ => (f, err .keyError)
        | _ => (f, bad "C13: parent_source via")
  | [Json.str "parent_block", k, via] =>
    match jNat? k with
    | none => (f, bad "C13: parent_block")
    | some k =>
      let res : Json := match parentBlock f k with
        | .ok b => ok (jKey b)
        | .error e => err e
      match via with
      | Json.str "fresh" => (f, res)
      | _ =>
        match (jArr via).toList with
        | [Json.str "link", h] =>
          match (jNat? h).bind f.lookup with
          | some (.hold _ h) => if h.srcs.contains k then (f, res) else (f, err .keyError)
          | _ => (f, err .keyError)
        | _ => (f, bad "C13: parent_block via")
  | [Json.str "referring", k, Json.str what] =>
    match jNat? k with
    | none => (f, bad "C13: referring")
    | some k =>
      -- `referring_<what>` of the class as extracted; a property the class does not have: AttributeError
      match f.lookup k with
      | some (.sec _) =>
        if what == "objects" then
          (f, exceptKeys (refObjectsT texts FindShape.sectionReferring FindShape.sectionReferringObjects f k))
        else (f, exceptKeys (refListT texts FindShape.sectionReferring f ("referring_" ++ what) k))
      | some (.src b _) =>
        if what == "objects" then
          (f, exceptKeys (srcRefObjectsG FindShape.sourceReferring FindShape.sourceReferringObjects b k))
        else (f, exceptKeys (srcRefList FindShape.sourceReferring b ("referring_" ++ what) k))
      | _ => (f, err .keyError)
  | [Json.str "find_related", k, via, filt] =>
    match jNat? k, filter? filt with
    | some k, some fl =>
      let res (c : Bool) : File × Json :=
        (f, exceptKeys ((findRelatedT FindShape.sectionParent FindShape.related IdLookup.shape texts f k c fl).map fun l => l.map Node.key))
      match via with
      | Json.str "cached" => res true
      | Json.str "fresh" => res false
      | _ => (f, bad "C13: find_related via")
    | _, _ => (f, bad "C13: find_related")
  | _ => (f, bad "C13: unknown op")

/-- is the entity `k` what the handle description `via` reaches?  `"fresh"` / `"cached"`: a handle from
the containers / from `create_section`; `["md", e]`: `e.metadata`; `["link", h]`: an element of `h.sources` -/
def viaOk (f : File) (k : Nat) (via : Json) : Option Bool :=
  match via with
  | Json.str "fresh" => some true
  | Json.str "cached" => some true
  | _ =>
    match (jArr via).toList with
    | [Json.str "md", e] =>
      match (jNat? e).bind f.lookup with
      | some (.blk b) => some (b.md == some k)
      | some (.hold _ h) => some (h.md == some k)
      | some (.src _ n) => some (n.md == some k)
      | _ => some false
    | [Json.str "link", h] =>
      match (jNat? h).bind f.lookup with
      | some (.hold _ h) => some (h.srcs.contains k)
      | _ => some false
    | _ => none

/-- queries through a handle reached by a link: the answer does not depend on the handle, the link has to exist -/
def handleV (texts : Nat → String) (f : File) (j0 : Json) : File × Json :=
  -- `"found"`: the handle is an element of a `find_sections()` / `find_sources()` result — as good as re-fetched
  let j := Json.arr ((jArr j0).map fun x => match x with
    | Json.str "found" => Json.str "fresh"
    | x => x)
  let thru (k : Json) (via : Json) (plain : Json) : File × Json :=
    match jNat? k with
    | none => (f, bad "C13: key")
    | some k =>
      match viaOk f k via with
      | some true => handle texts f plain
      | some false => (f, err .keyError)
      | none => (f, bad "C13: via")
  match (jArr j).toList with
  | [Json.str "find", root, filt, limit, via] => thru root via (Json.arr #[Json.str "find", root, filt, limit])
  | [Json.str "referring", k, what, via] => thru k via (Json.arr #[Json.str "referring", k, what])
  | [Json.str "find_related", k, via, filt] =>
    match via with
    | Json.str _ => handle texts f j
    | _ => thru k via (Json.arr #[Json.str "find_related", k, Json.str "fresh", filt])
  -- `section.link = other` / `= None`: stored, but no search, parent or referring list looks at it
  | [Json.str "set_link", k, target] =>
    match (jNat? k).bind (fun k => findL? k f.sections) with
    | none => (f, err .keyError)
    | some _ =>
      if isNull target then (f, ok Json.null) else
      match (jNat? target).bind (fun k => findL? k f.sections) with
      | none => (f, err .keyError)
      | some _ => (f, ok Json.null)
  | _ => handle texts f j

/-- the file and the id texts the caller supplied (`create_section(…, oid=…)`), by key: `StT` of
`Pure/TreeIdsHist.lean` -/
abbrev St := StT

/-- stand-in for a library-made id (`str(uuid4())`: lower case, hyphenated) -/
def genText (k : Nat) : String :=
  let ds := Nat.toDigits 16 k
  "00000000-0000-4000-8000-" ++ String.ofList (List.replicate (12 - ds.length) '0' ++ ds)

/-- `create_section(name, type[, oid])` under `p`: one step of `stepT` (Pure/TreeIdsHist.lean) - with an `oid`, what
`Section.create_new` stores for it (as extracted), if anything -/
def createS (s : St) (p n t : Json) (oid : Option String) : St × Json :=
  match n, t with
  | Json.str n, Json.str t =>
    if !(validName n && !t.isEmpty) then (s, bad "C13: invalid name/type") else
    match (if isNull p then some none else (jNat? p).map some) with
    | none => (s, bad "C13: parent")
    | some parent =>
      let op : OpT := match oid with
        | some o => .createSectionOid parent n t o
        | none => .plain (.createSection parent n t)
      match stepT IdLookup.shape s op with
      | .ok (s', some k) => (s', ok (jKey k))
      | .ok (s', none) => (s', ok Json.null)
      | .error e => (s, err e)
  | _, _ => (s, bad "C13: create_section")

/-- a tree `[name, type, oid | null, [subtrees]]` built elsewhere and copied in with its ids kept
(`dest.copy_section(top, children=True, keep_id=True)` from another file): the same sections, the same id texts,
keys in preorder.  `none`: a node below the top could not be made (malformed tree) -/
partial def importNode (s : St) (parent : Json) (node : Json) : Option (St × Json) :=
  match (jArr node).toList with
  | [n, t, oid, kids] =>
    let k := s.f.next
    let (s1, r) := createS s parent n t (match oid with | Json.str o => some o | _ => none)
    if s1.f.next != k + 1 then some (s, r) else
    (jArr kids).toList.foldlM (fun (acc : St × Json) kid =>
      match importNode acc.1 (jKey k) kid with
      | some (s2, _) => if s2.f.next == acc.1.f.next then none else some (s2, acc.2)
      | none => none) (s1, r)
  | _ => none

def handleS (s : St) (j : Json) : St × Json :=
  let texts := textsOf s.given genText
  match (jArr j).toList with
  | [Json.str "reset"] => ({}, ok Json.null)
  -- `str(uuid.UUID(text))` as `Pure/TreeIds.lean` has it (pinned against CPython)
  | [Json.str "canon", Json.str t] =>
    (s, match canonText? t with
        | some c => ok (Json.str c)
        | none => err .valueError)
  | [Json.str "create_section", p, n, t, Json.str oid] => createS s p n t (some oid)
  -- `oid=uuid.UUID(text)`: `is_uuid` / `create_new` look at `str(oid)`, the canonical text (no id at all: ValueError
  -- before nixio is called)
  | [Json.str "create_section", p, n, t, Json.arr #[Json.str "uuid", Json.str text]] =>
    match canonText? text with
    | some c => createS s p n t (some c)
    | none => (s, err .valueError)
  | [Json.str "import_section", dest, tree] =>
    match importNode s dest tree with
    | some (s', r) =>
      -- nothing is cached on a handle: the copy is reached through re-fetched handles only
      (s', r)
    | none => (s, bad "C13: import_section")
  | _ =>
    let (f', r) := handleV texts s.f j
    ({ s with f := f' }, r)

def main : IO Unit := loop ({} : St) handleS

end Driver.C13
