import Driver.Util
open Lean

namespace Driver.C13

/-- stub: replaced when the model of C13 is built -/
def main : IO Unit := pureLoop fun _ => bad "C13: model driver not built yet"

end Driver.C13
