import Driver.Store
import NixModel.Lemmas.C04Bfs
import NixModel.Lemmas.C04Forest
import NixModel.Store.C04Ext
import NixModel.Store.CopyFrames
open Lean Nix.Store

namespace Driver.C04

/-- does the breadth-first id collection of `del owner.cname[key]` (section / source containers)
end with an empty queue within the model's fuel? This is the decidable hypothesis of
`Nix.C04.subtree_complete_of_done`; for every other container the answer is `true`. -/
def fuelOk (g : Graph) (c : Cont) (key : Key) : Bool :=
  match Nix.Store.C04.delTarget g c key with
  | .error _ => true
  | .ok k =>
    let fuel := g.nodes.length * g.nodes.length + 1
    match c.info.flavour with
    | .sections => (Nix.Store.C04.bfsRest g "sections" fuel [k]).isEmpty
    | .sources => (Nix.Store.C04.bfsRest g "sources" fuel [k]).isEmpty
    | _ => true

/-- the decidable hypothesis of `Nix.C04.subtree_finite_of_growing`, for both hierarchies, with the next node
key as the bound (op `["growing_ok"]`, asked before every section / source deletion of the correspondence runs) -/
def growingOk (g : Graph) : Bool :=
  decide (Nix.Store.C04.GrowingKids g "sections" g.nextKey (fun k => kindOf g k == "section")) &&
  decide (Nix.Store.C04.GrowingKids g "sources" g.nextKey (fun k => kindOf g k == "source"))

/-- C04 is decided on the structural (HDF5 graph) model: the protocol of `Driver.Store`, plus
`["fuel_ok", owner, cname, key]`, `["create_df", block, name]` (`Block.create_data_frame(name, "t", …)`) and
`["dim_link", array, target]` (a new range dimension of `array` linked to `target`), and the copies within the
file `copy_block` / `copy_into` / `copy_section` / `copy_property` -/
def step (g : Graph) (j : Json) : Graph × Json :=
  match (Driver.jArr j).toList with
  | [.str "fuel_ok", pj, .str cname, kj] =>
    match Driver.Store.parsePath pj with
    | none => (g, Driver.bad "path")
    | some p =>
      match openCont g p cname, Driver.Store.parseKey g kj with
      | some c, some key => (g, Driver.ok (Json.bool (fuelOk g c key)))
      | none, _ => (g, Driver.bad "container")
      | _, none => (g, Driver.bad "key")
  | [.str "growing_ok"] => (g, Driver.ok (Json.bool (growingOk g)))
  | [.str "create_df", pj, .str name] =>
    match Driver.Store.parsePath pj with
    | some p => Driver.Store.applyG g (createFrame g p name "t")
    | none => (g, Driver.bad "path")
  | [.str "dim_link", aj, tj] =>
    match Driver.Store.parsePath aj, Driver.Store.parsePath tj with
    | some a, some t => Driver.Store.applyG g (dimLink g a t)
    | _, _ => (g, Driver.bad "path")
  -- copies within the file (the protocol of `Driver.Store2` without the source-file index): after an id-keeping
  -- copy two objects carry one `entity_id` — the histories then delete on either side
  | [.str "copy_block", sp, .str name, .bool keep] =>
    match Driver.Store.resolveKey g sp with
    | some k => Driver.Store.applyG g (copyBlock g g k name keep)
    | none => (g, Driver.bad "source path")
  | [.str "copy_into", dp, .str what, sp, .str name, .bool keep] =>
    match Driver.Store.parsePath dp, Driver.Store.resolveKey g sp with
    | some dpath, some k => Driver.Store.applyG g (copyIntoBlock g g dpath what k name keep)
    | _, _ => (g, Driver.bad "paths")
  | [.str "copy_section", dp, sp, .bool children, .bool keep, .str name] =>
    let dest : Option (Option Path) :=
      if Driver.isNull dp then some none else (Driver.Store.parsePath dp).map some
    match dest, Driver.Store.resolveKey g sp with
    | some d, some k => Driver.Store.applyG g (copySection g g d k children keep name)
    | _, _ => (g, Driver.bad "paths")
  | [.str "copy_property", dp, sp, .str name, .bool keep] =>
    match Driver.Store.resolveKey g dp, Driver.Store.resolveKey g sp with
    | some d, some k => Driver.Store.applyG g (copyProperty g g d k name keep)
    | _, _ => (g, Driver.bad "paths")
  -- `SourceLinkContainer.append` tests the source *object* (fix a440b8d); the shared `contAppend` makes that test
  -- itself (`inSourceTreeObj`), `contAppend20` is another name for it (`Props/C20.contAppend20_refines`)
  | [.str "append", pj, .str cname, kj] =>
    match Driver.Store.parsePath pj with
    | none => (g, Driver.bad "path")
    | some p =>
      match openCont g p cname, Driver.Store.parseKey g kj with
      | some c, some key => Driver.Store.applyG g (contAppend20 g c key)
      | none, _ => (g, Driver.bad "container")
      | _, none => (g, Driver.bad "key")
  | _ => Driver.Store.step g j

def main : IO Unit := Driver.loop ({} : Graph) step

end Driver.C04
