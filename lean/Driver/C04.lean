import Driver.Util
open Lean

namespace Driver.C04

/-- stub: replaced when the model of C04 is built -/
def main : IO Unit := pureLoop fun _ => bad "C04: model driver not built yet"

end Driver.C04
