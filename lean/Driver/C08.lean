import Driver.Util
import Driver.C07
import NixModel.Pure.Tagging
import NixModel.Pure.TagLookup
open Lean Nix.Dim Nix.Tagging Nix.DataView

/-!
Line protocol of the C08 model: one JSON object per line.

  {"k": "tag" | "mtag", "op": "tagged" | "feature",
   "shape": [n, …], "dims": [dim, …],          the referenced array / the feature's array
   "pos": …, "ext": …, "units": ["ms", …],     the tag
   "stop": "Exclusive" | "Inclusive",
   "nrefs": n, "refidx": i                      (op = tagged)
   "nfeats": n, "link": "tagged" | "untagged" | "indexed"   (op = feature)
   "idx": i,                                    (k = mtag: the position index)
   "via": "default" | "retrieve"}               (optional) the call carries no stop rule / is the deprecated wrapper

  dim  ::= ["sampled", off|null, si, unit|null] | ["range", [tick, …], unit|null] | ["set", nlabels]
  tag:  "pos": [x, …], "ext": [x, …] ([] = no extent stored)
  mtag: "pos": {"r": 1, "v": [x, …]} | {"r": 2, "c": ncols, "v": [[x, …], …]}, "ext": null | the same

Addressing by key (optional; without "key" the reference `refidx` / the last feature is taken by its index):
   "key": ["idx", i] | ["text", s, is_uuid] | ["other"]
   op = tagged:  "refs":  [[id, name], …]   (nrefs entries in creation order; entry `refidx` is the array of the case,
                                             every other entry is the dummy array: shape [4], one unlabelled set dimension)
   op = feature: "feats": [[id, data_id, data_name, link, on_case_array], …]   (creation order)
 the answer then carries "on": the position of the entity the key found.

Rationals travel as "num/den" strings.  Answer: {"ok": {"valid": b, "window": [[start, stop], …]}}
(the stored slices; meaningful for a valid view) or {"err": "<Err>"}.
-/
namespace Driver.C08
open Driver.C07

def jNat? (j : Json) : Option Nat :=
  match jInt? j with
  | some i => if i < 0 then none else some i.toNat
  | none => none

def jNats? (j : Json) : Option (List Nat) :=
  match j with
  | .arr a => a.toList.mapM jNat?
  | _ => none

def jOptStr? (j : Json) : Option (Option Nix.Units.Str) :=
  match j with
  | .null => some none
  | .str s => some (some s.toList)
  | _ => none

def jStrs? (j : Json) : Option (List Nix.Units.Str) :=
  match j with
  | .arr a => a.toList.mapM fun x => match x with | .str s => some s.toList | _ => none
  | _ => none

def jDim? (j : Json) : Option DimDesc :=
  match jArr j |>.toList with
  | [Json.str "sampled", off, si, u] =>
    match jOff? off, jRat? si, jOptStr? u with
    | some off, some si, some u => some (.sampled off si u)
    | _, _, _ => none
  | [Json.str "range", ticks, u] =>
    match jRats? ticks, jOptStr? u with
    | some t, some u => some (.range t u)
    | _, _ => none
  | [Json.str "set", n] => (jNat? n).map DimDesc.set
  | _ => none

def jDims? (j : Json) : Option (List DimDesc) :=
  match j with
  | .arr a => a.toList.mapM jDim?
  | _ => none

def field (j : Json) (k : String) : Json :=
  match j.getObjVal? k with
  | .ok v => v
  | .error _ => Json.null

def jPosArr? (j : Json) : Option PosArr :=
  match jInt? (field j "r") with
  | some 1 => (jRats? (field j "v")).map PosArr.oneD
  | some 2 =>
    match jNat? (field j "c"), field j "v" with
    | some c, .arr rows =>
      match rows.toList.mapM jRats? with
      | some rs => if rs.all (fun r => r.length == c) then some (.twoD c rs) else none
      | none => none
    | _, _ => none
  | _ => none

def jLink? (j : Json) : Option LinkType :=
  match j with
  | .str "tagged" => some .tagged
  | .str "untagged" => some .untagged
  | .str "indexed" => some .indexed
  | _ => none

def outView (r : Except Nix.Err View) : Json :=
  match r with
  | .error e => err e
  | .ok v =>
    ok (Json.mkObj [("valid", Json.bool v.valid),
      ("window", Json.arr (v.window.map fun w =>
        Json.arr #[Json.num (JsonNumber.fromInt w.1), Json.num (JsonNumber.fromInt w.2)]).toArray)])

def jKey? (j : Json) : Option Key :=
  match jArr j |>.toList with
  | [Json.str "idx", i] => (jInt? i).map Key.idx
  | [Json.str "text", Json.str s, Json.bool u] => some (.text s.toList u)
  | [Json.str "other"] => some .other
  | _ => none

def dummyArr : Arr := ⟨[4], [.set 0]⟩

def jRefs? (j : Json) (tgt : Nat) (arr : Arr) : Option (List RefEnt) :=
  match j with
  | .arr a =>
    (a.toList.zipIdx).mapM fun (x, i) =>
      match jArr x |>.toList with
      | [Json.str id, Json.str name] => some ⟨id.toList, name.toList, if i = tgt then arr else dummyArr⟩
      | _ => none
  | _ => none

def jFeats? (j : Json) (arr : Arr) : Option (List FeatEnt) :=
  match j with
  | .arr a =>
    a.toList.mapM fun x =>
      match jArr x |>.toList with
      | [Json.str id, Json.str did, Json.str dname, l, Json.bool on] =>
        (jLink? l).map fun link => ⟨id.toList, did.toList, dname.toList, link, if on then arr else dummyArr⟩
      | _ => none
  | _ => none

def outViewOn (r : Except Nix.Err View) (on : Except Nix.Err Nat) : Json :=
  match r with
  | .error e => err e
  | .ok v =>
    ok (Json.mkObj [("valid", Json.bool v.valid),
      ("window", Json.arr (v.window.map fun w =>
        Json.arr #[Json.num (JsonNumber.fromInt w.1), Json.num (JsonNumber.fromInt w.2)]).toArray),
      ("on", match on with | .ok k => Json.num (JsonNumber.fromNat k) | .error _ => Json.null)])

def sigOf (k op : String) : String :=
  if k == "tag" then
    (if op == "tagged" then "Tag.tagged_data(refidx, stop_rule)" else "Tag.feature_data(featidx, stop_rule)")
  else
    (if op == "tagged" then "MultiTag.tagged_data(posidx, refidx, stop_rule)"
     else "MultiTag.feature_data(posidx, featidx, stop_rule)")

/-- `"via": "default" | "retrieve"`: the call is made without a stop rule (the generated default applies) -/
def stopOfCase (j : Json) : Option (Option SliceMode) :=
  if isNull (field j "via") then (jSlice? (field j "stop")).map some
  else some (defaultStop? (sigOf (jStr (field j "k")) (jStr (field j "op"))))

def handle (j : Json) : Json :=
  match jNats? (field j "shape"), jDims? (field j "dims"), jStrs? (field j "units"), stopOfCase j with
  | some _, some _, some _, some none => err .typeError
  | some shape, some dims, some units, some (some stop) =>
    let arr : Arr := ⟨shape, dims⟩
    match jStr (field j "k"), jStr (field j "op") with
    | "tag", op =>
      match jRats? (field j "pos"), jRats? (field j "ext") with
      | some pos, some ext =>
        let t : TagDesc := ⟨pos, ext, units⟩
        if op == "tagged" then
          match jNat? (field j "nrefs"), jNat? (field j "refidx") with
          | some nrefs, some refidx =>
            if isNull (field j "key") then outView (Tag.taggedData t nrefs refidx arr stop)
            else
              match jKey? (field j "key"), jRefs? (field j "refs") refidx arr with
              | some key, some refs => outViewOn (Tag.taggedDataBy t refs key stop) (refLookup refs key)
              | _, _ => bad "C08: key / refs"
          | _, _ => bad "C08: nrefs / refidx"
        else if op == "feature" then
          match jNat? (field j "nfeats"), jLink? (field j "link") with
          | some nfeats, some link =>
            if isNull (field j "key") then outView (Tag.featureData t nfeats link arr stop)
            else
              match jKey? (field j "key"), jFeats? (field j "feats") arr with
              | some key, some feats => outViewOn (Tag.featureDataBy t feats key stop) (featLookup feats key)
              | _, _ => bad "C08: key / feats"
          | _, _ => bad "C08: nfeats / link"
        else bad "C08: unknown op"
      | _, _ => bad "C08: tag pos / ext"
    | "mtag", op =>
      let extJ := field j "ext"
      let ext? : Option (Option PosArr) := if isNull extJ then some none else (jPosArr? extJ).map some
      match jPosArr? (field j "pos"), ext?, jNat? (field j "idx") with
      | some pos, some ext, some idx =>
        let t : MTagDesc := ⟨pos, ext, units⟩
        if op == "tagged" then
          match jNat? (field j "nrefs"), jNat? (field j "refidx") with
          | some nrefs, some refidx =>
            if isNull (field j "key") then outView (MultiTag.taggedData t nrefs idx refidx arr stop)
            else
              match jKey? (field j "key"), jRefs? (field j "refs") refidx arr with
              | some key, some refs => outViewOn (MultiTag.taggedDataBy t refs idx key stop) (refLookup refs key)
              | _, _ => bad "C08: key / refs"
          | _, _ => bad "C08: nrefs / refidx"
        else if op == "feature" then
          match jNat? (field j "nfeats"), jLink? (field j "link") with
          | some nfeats, some link =>
            if isNull (field j "key") then outView (MultiTag.featureData t nfeats idx link arr stop)
            else
              match jKey? (field j "key"), jFeats? (field j "feats") arr with
              | some key, some feats => outViewOn (MultiTag.featureDataBy t feats idx key stop) (featLookup feats key)
              | _, _ => bad "C08: key / feats"
          | _, _ => bad "C08: nfeats / link"
        else bad "C08: unknown op"
      | _, _, _ => bad "C08: mtag pos / ext / idx"
    | _, _ => bad "C08: unknown kind"
  | _, _, _, _ => bad "C08: shape / dims / units / stop"

def main : IO Unit := pureLoop handle

end Driver.C08
