import Driver.Util
open Lean

namespace Driver.C08

/-- stub: replaced when the model of C08 is built -/
def main : IO Unit := pureLoop fun _ => bad "C08: model driver not built yet"

end Driver.C08
