import Driver.Util
import NixModel.Pure.Stamps
open Lean Nix Nix.Time Nix.Stamps Nix.Stamps.Gen

namespace Driver.C19

def kindOf : String → Option Kind
  | "file" => some .file | "block" => some .block | "group" => some .group
  | "data_array" => some .dataArray | "data_frame" => some .dataFrame | "tag" => some .tag
  | "multi_tag" => some .multiTag | "source" => some .source | "section" => some .section
  | "property" => some .property | "feature" => some .feature
  | _ => none

def inputOf : String → Option Input
  | "good" => some .good | "early" => some .refusedEarly | "late" => some .refusedLate
  | _ => none

def timeArgOf (j : Json) : TimeArg :=
  match j with
  | .null => .now
  | .num _ => match jInt? j with
    | some t => .at t
    | none => .badType
  | .bool b => .at (if b then 1 else 0)   -- Python: `bool` is an `int`, `check_attr_type(True, int)` passes
  | _ => .badType

def readJ : Except Err (Option Int) → Json
  | .ok none => Json.null
  | .ok (some t) => toJson t
  | .error e => Json.str ("ERR:" ++ e.toString)

/-- the stamps as the getters of the source report them (`observe`) -/
def obsJ : Option (Except Err (Option Int)) → Json
  | some r => readJ r
  | none => Json.str "ERR:getter outside the model"

def stampsJ (s : State) : Json :=
  Json.arr <| (s.ents.zipIdx.filterMap fun (e, i) =>
    if e.alive then
      some (Json.arr #[toJson i, obsJ (observe s i .created), obsJ (observe s i .updated)])
    else none).toArray

def resJ : Res → String
  | .done => "done" | .refused => "refused" | .err e => "err:" ++ e.toString | .bad => "bad"

def outJ (s : State) (r : Res) : Json :=
  match r with
  | .bad => bad "C19: operation not applicable to the model state"
  | r => ok (Json.mkObj [("res", Json.str (resJ r)), ("auto", Json.bool s.auto), ("stamps", stampsJ s)])

/-- a trailing JSON object (the concrete arguments used on the implementation side) is ignored -/
def opList (j : Json) : List Json :=
  let l := (jArr j).toList
  match l.getLast? with
  | some (.obj _) => l.dropLast
  | _ => l

/-- the harness says how it built the argument ("good": accepted, "early" / "late": refused before /
after the idiom), not which path of the source the call takes; the outcome is chosen from the
outcomes the resolved member has: the one normal outcome when all returning paths agree on the touch
state (none when they do not: the history cannot be predicted), the raising outcome otherwise -/
def outcomeOf (s : State) (e : Nat) (via : Option Cls) (m : Mem) (inp : Input) : Option Outcome :=
  match aliveAt s e with
  | none => none
  | some ent =>
    match resolve (match via with | some c => c | none => ent.kind.cls) m with
    | none => none
    | some mb =>
      match inp with
      | .good => mb.acceptedOutcome
      | .refusedEarly => some ⟨.raises, .none⟩     -- the validation at the call boundary: always possible
      | .refusedLate => mb.refusedOutcome true

def parseOp (s : State) (j : Json) : Option Op :=
  match opList j with
  | [Json.str "create", Json.str k, p, Json.str inp] => do
    let k ← kindOf k; let p ← jInt? p; let inp ← inputOf inp
    if p < 0 then none else some (.create k p.toNat inp)
  | [Json.str "copy", src, p] => do
    let src ← jInt? src; let p ← jInt? p
    if src < 0 || p < 0 then none else some (.copy src.toNat p.toNat)
  | [Json.str "call", e, via, Json.str m, Json.str inp] => do
    let e ← jInt? e; let m ← Mem.ofString m; let inp ← inputOf inp
    if e < 0 then none else
    match via with
    | .null => do let o ← outcomeOf s e.toNat none m inp; some (.call e.toNat none m o)
    | .str c => do
      let c ← Cls.ofString c; let o ← outcomeOf s e.toNat (some c) m inp
      some (.call e.toNat (some c) m o)
    | _ => none
  | [Json.str "force_created", e, t] => do
    let e ← jInt? e
    if e < 0 then none else some (.forceCreated e.toNat (timeArgOf t))
  | [Json.str "force_updated", e, t] => do
    let e ← jInt? e
    if e < 0 then none else some (.forceUpdated e.toNat (timeArgOf t))
  | [Json.str "set_auto", Json.bool b] => some (.setAuto b)
  | [Json.str "set_clock", t] => do let t ← jInt? t; some (.setClock t)
  | [Json.str "delete", e] => do
    let e ← jInt? e
    if e < 0 then none else some (.delete e.toNat)
  | [Json.str "reopen", Json.bool b] => some (.reopen b)
  | _ => none

def viaOf : Json → Option (Option Cls)
  | .null => some none
  | .str c => (Cls.ofString c).map some
  | _ => none

/-- `["call_delegating", e, via, m, inp, d, dvia, f, finp]`: the call `e.m` (as the program makes it), whose
body hands work to member `f` of entity `d`; both outcomes are chosen as for a plain call -/
def delegating? (s : State) (j : Json) : Option (State × Res) :=
  match opList j with
  | [Json.str "call_delegating", e, via, Json.str m, Json.str inp, d, dvia, Json.str f, Json.str finp] => do
    let e ← jInt? e; let d ← jInt? d
    let m ← Mem.ofString m; let f ← Mem.ofString f
    let inp ← inputOf inp; let finp ← inputOf finp
    let via ← viaOf via; let dvia ← viaOf dvia
    if e < 0 || d < 0 then none else
    let o ← outcomeOf s e.toNat via m inp
    let fo ← outcomeOf s d.toNat dvia f finp
    some (callDelegating s e.toNat via m o d.toNat dvia f fo)
  | _ => none

def touchJ : Touch → String
  | .none => "none" | .self => "self" | .parent => "parent" | .linked => "linked" | .always => "always"
def mkindJ : MKind → String
  | .setter => "setter" | .method => "method" | .forceCreated => "forceCreated"
  | .forceUpdated => "forceUpdated"

def handle (st : Option State) (j : Json) : Option State × Json :=
  match (jArr j).toList with
  | [Json.str "time_to_str", t] =>
    match jInt? t with
    | some t => match timeToStr t with
      | .ok v => (st, ok (Json.str (String.ofList v)))
      | .error e => (st, err e)
    | none => (st, bad "C19: time_to_str needs an integer")
  | [Json.str "str_to_time", Json.str v] =>
    let l := v.toList
    let r := match strToTime l with
      | .ok t => ("ok", toJson t)
      | .error e => ("err", Json.str e.toString)
    (st, Json.mkObj [r, ("canonical", Json.bool (canonicalShape l))])
  | [Json.str "resolve", Json.str c, Json.str m] =>
    match Cls.ofString c, Mem.ofString m with
    | some c, some m =>
      match resolve c m with
      | some mb => (st, ok (Json.mkObj [("cls", Json.str ((reprStr mb.cls).replace "Nix.Stamps.Gen.Cls." "")),
          ("kind", Json.str (mkindJ mb.kind)),
          ("outcomes", Json.arr (mb.outcomes.map fun o =>
            Json.arr #[Json.str (match o.exit with | .returns => "returns" | .raises => "raises"),
                       Json.str (touchJ o.touch)]).toArray),
          ("foreign", Json.arr (mb.foreign.map fun m =>
            Json.str (((reprStr m).replace "Nix.Stamps.Gen.Mem.m_" ""))).toArray)]))
      | none => (st, ok Json.null)
    | _, _ => (st, ok Json.null)
  | [Json.str "open", clock, Json.bool auto] =>
    match jInt? clock with
    | some c => match State.open c auto with
      | .ok s => (some s, outJ s .done)
      | .error e => (none, err e)
    | none => (st, bad "C19: open needs an integer clock")
  | _ =>
    match st with
    | none => (st, bad "C19: no open file")
    | some s =>
      match delegating? s j with
      | some (s', r) => (some s', outJ s' r)
      | none =>
      match parseOp s j with
      | some op =>
        let (s', r) := step s op
        (some s', outJ s' r)
      | none => (st, bad "C19: unknown op, or a call whose outcome the source does not determine")

def main : IO Unit := loop (none : Option State) handle

end Driver.C19
