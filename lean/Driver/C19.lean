import Driver.Util
open Lean

namespace Driver.C19

/-- stub: replaced when the model of C19 is built -/
def main : IO Unit := pureLoop fun _ => bad "C19: model driver not built yet"

end Driver.C19
