import Driver.Util
open Lean

namespace Driver.C03

/-- stub: replaced when the model of C03 is built -/
def main : IO Unit := pureLoop fun _ => bad "C03: model driver not built yet"

end Driver.C03
