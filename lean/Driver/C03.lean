import Driver.Store
import NixModel.Store.Frames
import NixModel.Py.UuidText
open Lean Nix.Store

namespace Driver.C03

/-- C03 is decided on the structural (HDF5 graph) model: the shared driver of C02 C03 C04 C05 C12 C20,
extended by the operations only C03's histories use (`Store/Frames.lean`) and by the pure
`uuid.UUID(str)` acceptance functions (`Py/UuidText.lean`) -/
def step (g : Graph) (j : Json) : Graph × Json :=
  match (Driver.jArr j).toList with
  | [.str "create_frame", pj, nm, .str ty] =>
    match Driver.Store.parsePath pj, Driver.Store.parseName g nm with
    | some p, some name => Driver.Store.applyG g (createFrame g p name ty)
    | _, _ => (g, Driver.bad "args")
  | [.str "create_mtag_auto", pj, nm, .str ty, .bool ext] =>
    match Driver.Store.parsePath pj, Driver.Store.parseName g nm with
    | some p, some name => Driver.Store.applyG g (createMultiTagAuto g p name ty ext)
    | _, _ => (g, Driver.bad "args")
  | [.str "is_uuid", .str s] =>
    (g, Driver.ok (Json.arr #[Json.bool (Nix.Py.uuidAccepts s), Json.bool (pyIsUuid s)]))
  | _ => Driver.Store.step g j

def main : IO Unit := Driver.loop init step

end Driver.C03
