import Driver.Store2
import NixModel.Store.CopyFrames
import NixModel.Store.CopyHandle
open Lean Nix.Store

namespace Driver.C20

/-- C20 is decided on the structural (HDF5 graph) model with copies (`Driver.Store2`, shared with C02),
extended by what only C20's histories need (`Store/CopyFrames.lean`): data-frame creation,
`create_data_frame(copy_from=…)` — executed from the *generated* entry-point shape — and the object test
of `SourceLinkContainer.append` (matters only after an id-keeping block copy) -/
def step (s : Driver.Store2.St) (j : Json) : Driver.Store2.St × Json :=
  match (Driver.jArr j).toList with
  | [.str "create_frame", pj, nm, .str ty] =>
    match Driver.Store.parsePath pj, Driver.Store.parseName s.g nm with
    | some p, some name => Driver.Store2.applyS s (createDataFrame s.g p name ty)
    | _, _ => (s, Driver.bad "args")
  | [.str "copy_into", dp, .str "data_frame", sf, sp, .str name, .bool keep] =>
    match Driver.jInt? sf, Driver.Store.parsePath dp with
    | some sfi, some dpath =>
      let src := s.files[sfi.toNat]?.getD {}
      match Driver.Store.resolveKey src sp with
      | some k => Driver.Store2.applyS s (copyFrameIntoBlock src s.g dpath k name keep)
      | none => (s, Driver.bad "source path")
    | _, _ => (s, Driver.bad "args")
  | [.str "append", pj, .str cname, kj] =>
    match Driver.Store.parsePath pj with
    | none => (s, Driver.bad "path")
    | some p =>
      match openCont s.g p cname, Driver.Store.parseKey s.g kj with
      | some c, some key => Driver.Store2.applyS s (contAppend20 s.g c key)
      | none, _ => (s, Driver.bad "container")
      | _, none => (s, Driver.bad "key")
  -- which object HDF5 finds at the source an entry point names, for a handle (object path, parent path | null):
  -- `sourceOf` of Store/CopyHandle.lean; answer: [is it the handle's own object, its name] or null (nothing there)
  | [.str "source_of", .str addr, .str cls, op, pp, _] =>
    match Driver.Store.resolveKey s.g op with
    | none => (s, Driver.bad "object path")
    | some k =>
      let par? : Option (Option Nat) :=
        if pp == Json.null then some none else (Driver.Store.resolveKey s.g pp).map some
      match par? with
      | none => (s, Driver.bad "parent path")
      | some par =>
        let a := if addr == "object" then CopyShape.SrcAddr.object else CopyShape.SrcAddr.parentPath
        match CopyShape.sourceOf a s.g cls ⟨k, par⟩ with
        | none => (s, Driver.ok Json.null)
        | some k' => (s, Driver.ok (Json.arr #[Json.bool (k' == k), Json.str ((s.g.getAttr k' "name").getD "")]))
  | _ => Driver.Store2.step s j

def main : IO Unit := Driver.loop ({} : Driver.Store2.St) step

end Driver.C20
