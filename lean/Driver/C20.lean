import Driver.Store2

namespace Driver.C20

/-- C20 is decided on the structural (HDF5 graph) model: same driver for C02 C03 C04 C05 C12 C20 -/
def main : IO Unit := Driver.Store2.main

end Driver.C20
