import Driver.Util
open Lean

namespace Driver.C20

/-- stub: replaced when the model of C20 is built -/
def main : IO Unit := pureLoop fun _ => bad "C20: model driver not built yet"

end Driver.C20
