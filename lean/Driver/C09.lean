import Driver.Util
import NixModel.Pure.Units
import NixModel.Pure.UnitsCompound
import NixModel.Pure.UnitsScaling
open Lean Nix.Units

namespace Driver.C09

def s2j (s : Str) : Json := Json.str (String.ofList s)

def handle (j : Json) : Json :=
  match jArr j |>.toList with
  | [Json.str "sanitizer", Json.str u] => ok (s2j (sanitizer u.toList))
  | [Json.str "is_atomic", Json.str u] => ok (Json.bool (isAtomic u.toList))
  | [Json.str "is_compound", Json.str u] => ok (Json.bool (isCompound u.toList))
  | [Json.str "is_si", Json.str u] => ok (Json.bool (Scaling.isSi u.toList))
  | [Json.str "split", Json.str u] =>
    let (p, b, w) := split u.toList
    ok (Json.arr #[s2j p, s2j b, s2j w])
  | [Json.str "scalable", Json.str a, Json.str b] => ok (Json.bool (Scaling.scalable a.toList b.toList))
  | [Json.str "scalable_list", Json.arr a, Json.arr b] =>
    let strs (x : Array Json) : Option (List Str) := x.toList.mapM fun j =>
      match j with
      | Json.str t => some t.toList
      | _ => none
    match strs a, strs b with
    | some la, some lb => ok (Json.bool (Compound.scalableList la lb))
    | _, _ => bad "C09: scalable_list takes two lists of strings"
  | [Json.str "scaling", Json.str a, Json.str b] =>
    match Scaling.scaling a.toList b.toList with
    | .ok r => ok (Json.str (ratStr r))
    | .error e => err e
  | [Json.str "invert_power", Json.str u] => ok (s2j (Compound.invertPower u.toList))
  | [Json.str "split_compound", Json.str u] =>
    match Compound.splitCompound u.toList with
    | some l => ok (Json.arr (l.map s2j).toArray)
    | none => Json.mkObj [("err", Json.str "Exception")]
  | _ => bad "C09: unknown op"

def main : IO Unit := pureLoop handle

end Driver.C09
