import Driver.Util
import NixModel.Pure.Poly
open Lean Nix.Poly

/-!
Line protocol of the C15 model driver.  One case per line:

`{"dtype": "int16", "shape": [2,3], "raw": ["0/1", …], "coeffs": null | ["1/1", …], "origin": null | "3/2",
  "ops": [op, …]}`

ops (trailing extra elements — e.g. the read path used on the implementation — are ignored):
`["set_coeffs", null | ["seq", [rat…], …] | ["scalar", rat, …] | ["notflat", len, …] | ["badelems", "text"|"complex", …]]`, `["set_origin", null | ["num", rat, …] | ["bad", …]]`,
`["read", ix]`, `["view", win, ix]`, `["coeffs"]`, `["origin"]`, `["raw"]`, `["ticks", [int…]]`, `["write", [rat…]]`, `["reopen"]`
with `ix = null | [item…]`, `item = int | [start|null, stop|null, step|null]`, `win = null | [[start, stop], …]`.

Output: `{"ok": [out, …]}`, one `out` per op: `{"ok": value}` or `{"err": "<Err>"}`.
-/
namespace Driver.C15

def parseRat? (j : Json) : Option Rat :=
  match j with
  | .str s =>
    match s.splitOn "/" with
    | [n, d] =>
      match n.toInt?, d.toNat? with
      | some n, some d => if d = 0 then none else some (mkRat n d)
      | _, _ => none
    | [n] => n.toInt?.map (fun i => (i : Rat))
    | _ => none
  | _ => (jInt? j).map (fun i => (i : Rat))

def parseRats? (j : Json) : Option (List Rat) :=
  match j with
  | .arr a => a.toList.mapM parseRat?
  | _ => none

def optInt? (j : Json) : Option (Option Int) :=
  if isNull j then some none else (jInt? j).map some

def parseItem? (j : Json) : Option AxisIx :=
  match j with
  | .arr a =>
    match a.toList with
    | [s, e, st] => do
      let s ← optInt? s
      let e ← optInt? e
      let st ← optInt? st
      pure (.slice s e st)
    | _ => none
  | _ => (jInt? j).map AxisIx.int

def parseIndex? (j : Json) : Option Index :=
  match j with
  | .null => some none
  | .arr a => (a.toList.mapM parseItem?).map some
  | _ => none

def parseWin? (j : Json) : Option (Option (List (Int × Int))) :=
  match j with
  | .null => some none
  | .arr a =>
    (a.toList.mapM fun p =>
      match (jArr p).toList with
      | [s, e] => do
        let s ← jInt? s
        let e ← jInt? e
        pure (s, e)
      | _ => none).map some
  | _ => none

def parseOp? (j : Json) : Option Op :=
  match (jArr j).toList with
  | Json.str "set_coeffs" :: arg :: _ =>
    match arg with
    | .null => some (.setCoeffs .none)
    | .arr a =>
      match a.toList with
      | Json.str "seq" :: l :: _ => (parseRats? l).map (fun cs => .setCoeffs (.seq cs))
      | Json.str "scalar" :: x :: _ => (parseRat? x).map (fun x => .setCoeffs (.scalar x))
      | Json.str "notflat" :: n :: _ => (jInt? n).map (fun n => .setCoeffs (.notFlat n.toNat))
      | Json.str "badelems" :: k :: _ => some (.setCoeffs (.badElems (jStr k == "complex")))
      | _ => none
    | _ => none
  | Json.str "set_origin" :: arg :: _ =>
    match arg with
    | .null => some (.setOrigin .none)
    | .arr a =>
      match a.toList with
      | Json.str "num" :: x :: _ => (parseRat? x).map (fun x => .setOrigin (.num x))
      | Json.str "bad" :: _ => some (.setOrigin .notNumber)
      | _ => none
    | _ => none
  | Json.str "read" :: ix :: _ => (parseIndex? ix).map Op.read
  | Json.str "view" :: win :: ix :: _ => do
    let w ← parseWin? win
    let i ← parseIndex? ix
    pure (.readView w i)
  | Json.str "coeffs" :: _ => some .getCoeffs
  | Json.str "origin" :: _ => some .getOrigin
  | Json.str "raw" :: _ => some .rawDump
  | Json.str "ticks" :: l :: _ => ((jArr l).toList.mapM jInt?).map Op.linkTicks
  | Json.str "write" :: l :: _ => (parseRats? l).map Op.write
  | Json.str "reopen" :: _ => some .reopen
  | _ => none

def ratJ (r : Rat) : Json := Json.str (ratStr r)
def natsJ (l : List Nat) : Json := Json.arr (l.map (fun (n : Nat) => Json.num (JsonNumber.fromNat n))).toArray
def ratsJ (l : List Rat) : Json := Json.arr (l.map ratJ).toArray

def outJ : Out → Json
  | .unit => ok Json.null
  | .err e => err e
  | .result r => ok (Json.mkObj [("dtype", Json.str r.dtype.name), ("shape", natsJ r.shape), ("vals", ratsJ r.vals)])
  | .coeffs l => ok (ratsJ l)
  | .origin o => ok (match o with | none => Json.null | some x => ratJ x)
  | .raw d s v => ok (Json.mkObj [("dtype", Json.str d.name), ("shape", natsJ s), ("vals", ratsJ v)])

/-- for read operations the driver also reports the raw elements the read selected (`xs`: the same read
with the calibration cleared) and the calibration in effect; the harness uses them only to decide whether
the float evaluation of that element is exact or to compute the stated bound (DESIGN §5) -/
def extras (a : Arr) (op : Op) : List (String × Json) :=
  let bare : Arr := { a with coeffs := none, origin := none }
  let cal := [("coeffs", ratsJ a.coeffsGet),
              ("origin", match a.originGet with | none => Json.null | some x => ratJ x)]
  match op with
  | .read _ | .readView _ _ =>
    match (step bare op).2 with
    | .result r => ("xs", ratsJ r.vals) :: cal
    | _ => cal
  | _ => []

def outJ' (a : Arr) (op : Op) (o : Out) : Json :=
  match o with
  | .result r =>
    ok (Json.mkObj ([("dtype", Json.str r.dtype.name), ("shape", natsJ r.shape), ("vals", ratsJ r.vals)]
                    ++ extras a op))
  | _ => outJ o

def runJ (a : Arr) : List Op → List Json
  | [] => []
  | op :: ops =>
    let (a', o) := step a op
    outJ' a op o :: runJ a' ops

def parseArr? (j : Json) : Option Arr := do
  let dt ← (j.getObjVal? "dtype").toOption
  let dtype ← DType.ofName? (jStr dt)
  let sh ← (j.getObjVal? "shape").toOption
  let shape ← (jArr sh).toList.mapM (fun x => (jInt? x).bind (fun i => if i < 0 then none else some i.toNat))
  let raw ← (j.getObjVal? "raw").toOption >>= parseRats?
  let cj ← (j.getObjVal? "coeffs").toOption
  let coeffs ← (if isNull cj then some none else (parseRats? cj).map some)
  let oj ← (j.getObjVal? "origin").toOption
  let origin ← (if isNull oj then some none else (parseRat? oj).map some)
  pure { dtype, shape, raw, coeffs, origin }

def handle (j : Json) : Json :=
  match parseArr? j with
  | none => bad "C15: malformed array description"
  | some a =>
    match (j.getObjVal? "ops").toOption with
    | none => bad "C15: no ops"
    | some opsj =>
      match (jArr opsj).toList.mapM parseOp? with
      | none => bad "C15: malformed op"
      | some ops => ok (Json.arr (runJ a ops).toArray)

def main : IO Unit := pureLoop handle

end Driver.C15
