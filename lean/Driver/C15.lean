import Driver.Util
open Lean

namespace Driver.C15

/-- stub: replaced when the model of C15 is built -/
def main : IO Unit := pureLoop fun _ => bad "C15: model driver not built yet"

end Driver.C15
