import Driver.Util
import NixModel.Pure.FlushOpen
open Lean Nix.Flush

namespace Driver.C17

/-- driver state: the world and every key ever written (stores are functions; views are printed over
these keys, in first-write order) -/
structure St where
  ow : OWorld
  keys : List Key
  cfg : Cfg

/-- `reset` goes back to the configuration read off the source -/
def St.init : St := ⟨OWorld.init, [], Gen.cfg⟩

def libver? : String → Option Libver
  | "earliest" => some .earliest | "v18" => some .v18 | "v110" => some .v110 | "v112" => some .v112
  | "v114" => some .v114 | "v200" => some .v200 | "latest" => some .latest
  | _ => none

def libverName : Libver → String
  | .earliest => "earliest" | .v18 => "v18" | .v110 => "v110" | .v112 => "v112"
  | .v114 => "v114" | .v200 => "v200" | .latest => "latest"

def flagsName : Flags → String
  | .rdonly => "ACC_RDONLY" | .rdwr => "ACC_RDWR" | .trunc => "ACC_TRUNC"

def modeName : Mode → String
  | .readOnly => "r" | .readWrite => "a" | .overwrite => "w"

def pathState? : String → Option PathState
  | "missing" => some .missing | "empty" => some .empty | "file" => some .file
  | _ => none

def track (st : St) (k : Key) : List Key := if st.keys.contains k then st.keys else st.keys ++ [k]

def storeJson (keys : List Key) (s : Store) : Json :=
  Json.arr (keys.filterMap (fun k =>
    match s k with
    | some v => some (Json.arr #[Json.str k, Json.str v])
    | none => none)).toArray

def outcome (r : OWorld × Option Nix.Err) : Json :=
  match r.2 with
  | none => ok Json.null
  | some e => err e

def mode? : String → Option Mode
  | "r" => some .readOnly
  | "a" => some .readWrite
  | "w" => some .overwrite
  | _ => none

def ev (st : St) (e : Ev) : St × Json :=
  let r := stepO st.cfg st.ow e
  ({ st with ow := r.1 }, outcome r)

def handle (st : St) (j : Json) : St × Json :=
  match jArr j |>.toList with
  | [Json.str "reset"] => (St.init, ok Json.null)
  | [Json.str "open", Json.str m] =>
    match mode? m with
    | some md => ev st (.open md)
    | none => (st, err .valueError)          -- map_file_mode: "Invalid file mode specified."
  | [Json.str "put", Json.str k, Json.str v] => ev { st with keys := track st k } (.write (.put k v))
  | [Json.str "del", Json.str k] => ev st (.write (.del k))
  | [Json.str "flush"] => ev st .flush
  | [Json.str "close"] => ev st .close
  | [Json.str "exit"] => ev st .exit
  | [Json.str "wb", Json.arr ks] => ev st (.writeback (ks.toList.map jStr))
  | [Json.str "kill"] => ev st .kill
  | [Json.str "cfg", Json.str lo, Json.bool atArg, Json.bool openAtArg] =>
    -- the open path under another configuration (fapl probes of the harness): lower libver bound, create at
    -- the named path
    match libver? lo with
    | some l => ({ st with cfg := ⟨l, atArg, openAtArg⟩ }, ok Json.null)
    | none => (st, bad "C17: unknown libver")
  | [Json.str "decide", Json.str ps, Json.str m] =>
    -- File.__init__'s decision for a path state and a mode (no state change)
    match pathState? ps, mode? m with
    | some p, some md =>
      (st, match openDecision p md with
        | .create fl sm => ok (Json.arr #[Json.str "create", Json.str (flagsName fl), Json.str (modeName sm)])
        | .openExisting fl sm => ok (Json.arr #[Json.str "open", Json.str (flagsName fl), Json.str (modeName sm)])
        | .refuseRuntime => err .runtimeError
        | .refuseInvalidFile => err .invalidFile)
    | _, none => (st, err .valueError)
    | none, _ => (st, bad "C17: unknown path state")
  | [Json.str "is_open"] => (st, ok (Json.bool (isOpen st.ow.w)))
  | [Json.str "view"] =>
    match viewO st.ow with
    | some s => (st, ok (storeJson st.keys s))
    | none => (st, err .runtimeError)
  | [Json.str "disk"] =>
    match st.ow.w.disk with
    | some s => (st, ok (storeJson st.keys s))
    | none => (st, ok Json.null)
  | [Json.str "shape"] =>
    let pj (ps : List Prim) : Json := Json.arr (ps.map (fun p => Json.str (match p with
      | .gcCollect => "gcCollect" | .h5flush => "h5flush" | .h5close => "h5close"))).toArray
    (st, ok (Json.mkObj [("flush", pj Gen.fileFlushBody), ("close", pj Gen.fileCloseBody),
                         ("exit", pj Gen.fileExitBody),
                         ("fapl_low", Json.str (libverName Gen.cfg.low)),
                         ("fapl_modelled", Json.bool (faplModelled Gen.faplCalls)),
                         ("create_at_arg", Json.bool Gen.cfg.createAtArg),
                         ("open_at_arg", Json.bool Gen.cfg.openAtArg)]))
  | _ => (st, bad "C17: unknown op")

def main : IO Unit := loop St.init handle

end Driver.C17
