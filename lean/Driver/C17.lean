import Driver.Util
open Lean

namespace Driver.C17

/-- stub: replaced when the model of C17 is built -/
def main : IO Unit := pureLoop fun _ => bad "C17: model driver not built yet"

end Driver.C17
