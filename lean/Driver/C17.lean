import Driver.Util
import NixModel.Pure.Flush
open Lean Nix.Flush

namespace Driver.C17

/-- driver state: the world and every key ever written (stores are functions; views are printed over
these keys, in first-write order) -/
structure St where
  w : World
  keys : List Key

def St.init : St := ⟨World.init, []⟩

def track (st : St) (k : Key) : List Key := if st.keys.contains k then st.keys else st.keys ++ [k]

def storeJson (keys : List Key) (s : Store) : Json :=
  Json.arr (keys.filterMap (fun k =>
    match s k with
    | some v => some (Json.arr #[Json.str k, Json.str v])
    | none => none)).toArray

def outcome (r : World × Option Nix.Err) : Json :=
  match r.2 with
  | none => ok Json.null
  | some e => err e

def mode? : String → Option Mode
  | "r" => some .readOnly
  | "a" => some .readWrite
  | "w" => some .overwrite
  | _ => none

def ev (st : St) (e : Ev) : St × Json :=
  let r := step st.w e
  ({ st with w := r.1 }, outcome r)

def handle (st : St) (j : Json) : St × Json :=
  match jArr j |>.toList with
  | [Json.str "reset"] => (St.init, ok Json.null)
  | [Json.str "open", Json.str m] =>
    match mode? m with
    | some md => ev st (.open md)
    | none => (st, err .valueError)          -- map_file_mode: "Invalid file mode specified."
  | [Json.str "put", Json.str k, Json.str v] => ev { st with keys := track st k } (.write (.put k v))
  | [Json.str "del", Json.str k] => ev st (.write (.del k))
  | [Json.str "flush"] => ev st .flush
  | [Json.str "close"] => ev st .close
  | [Json.str "exit"] => ev st .exit
  | [Json.str "wb", Json.arr ks] => ev st (.writeback (ks.toList.map jStr))
  | [Json.str "kill"] => ev st .kill
  | [Json.str "is_open"] => (st, ok (Json.bool (isOpen st.w)))
  | [Json.str "view"] =>
    match view st.w with
    | some s => (st, ok (storeJson st.keys s))
    | none => (st, err .runtimeError)
  | [Json.str "disk"] =>
    match st.w.disk with
    | some s => (st, ok (storeJson st.keys s))
    | none => (st, ok Json.null)
  | [Json.str "shape"] =>
    let pj (ps : List Prim) : Json := Json.arr (ps.map (fun p => Json.str (match p with
      | .gcCollect => "gcCollect" | .h5flush => "h5flush" | .h5close => "h5close"))).toArray
    (st, ok (Json.mkObj [("flush", pj Gen.fileFlushBody), ("close", pj Gen.fileCloseBody),
                         ("exit", pj Gen.fileExitBody)]))
  | _ => (st, bad "C17: unknown op")

def main : IO Unit := loop St.init handle

end Driver.C17
