import Driver.Util
open Lean

namespace Driver.C14

/-- stub: replaced when the model of C14 is built -/
def main : IO Unit := pureLoop fun _ => bad "C14: model driver not built yet"

end Driver.C14
