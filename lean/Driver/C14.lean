import Driver.Util
import NixModel.Pure.Validator
import NixModel.Generated.ValidatorGuards
import NixModel.Pure.DimLinkTicks
open Lean Nix.Validator Nix.Validator.Gen

/-!
Driver for C14.  One line = `["validate", <file description>]`; the answer is
`{"ok": [[kind, [path…], [msg…]], …]}` (the entries of `results["errors"]` in insertion order) or
`{"err": <class>}` when an API read raises.  A message is `[id]`, `[id, idx]`, `[id, idx, value]`,
`["feature", i, id]` or `["property", i, id]`.

`["guards", <function>, {<read path>: <value>, …}]` evaluates the conditions of that function's report sites as compiled
from the source (`Generated/ValidatorGuards.lean`) under `PyGuard.eval`, the reads returning the given Python values
(`null`, `["bool", b]`, `["int", n]`, `["rat", "n/d"]`, `["str", s]`, `["rats", […]]`, `["strs", […]]`, `["ints", […]]`,
`["strss", [[…]]]`, `["intss", [[…]]]`, `["sized", n]`, `["enum", name]`; a path that is absent reads as `None`); the answer is the list of
identifiers whose site fires, in source order, or `{"err": <class>}`.

`["linkticks", shape, index, data]` = the ticks of a range dimension linked to a DataArray (`Pure/DimLinkTicks.lean`),
`["linkaccept", shape, index]` = the verdict of `link_data_array`.
-/
namespace Driver.C14

abbrev P := Except String

def field (j : Json) (k : String) : P Json :=
  match j.getObjVal? k with
  | .ok v => .ok v
  | .error _ => .error s!"missing field {k}"

def optStr (j : Json) : P (Option (List Char)) :=
  match j with
  | .null => .ok none
  | .str s => .ok (some s.toList)
  | _ => .error "expected string or null"

def str (j : Json) : P (List Char) :=
  match j with
  | .str s => .ok s.toList
  | _ => .error "expected string"

def int (j : Json) : P Int :=
  match j.getInt? with
  | .ok i => .ok i
  | .error _ => .error "expected int"

def nat (j : Json) : P Nat := do
  let i ← int j
  if i < 0 then .error "expected nat" else .ok i.toNat

def optInt (j : Json) : P (Option Int) :=
  match j with
  | .null => .ok none
  | _ => (int j).map some

def optNat (j : Json) : P (Option Nat) :=
  match j with
  | .null => .ok none
  | _ => (nat j).map some

def bool (j : Json) : P Bool :=
  match j with
  | .bool b => .ok b
  | _ => .error "expected bool"

def arr (j : Json) : P (List Json) :=
  match j with
  | .arr a => .ok a.toList
  | _ => .error "expected array"

def rat (j : Json) : P Rat :=
  match j with
  | .str s =>
    match s.splitOn "/" with
    | [n, d] =>
      match n.toInt?, d.toNat? with
      | some n, some d => if d == 0 then .error "zero denominator" else .ok (mkRat n d)
      | _, _ => .error "bad rational"
    | _ => .error "bad rational"
  | _ => .error "expected rational string"

def optRat (j : Json) : P (Option Rat) :=
  match j with
  | .null => .ok none
  | _ => (rat j).map some

def ent (j : Json) : P Ent := do
  return { type_ := ← optStr (← field j "type"), id := ← optStr (← field j "id"),
           idUuid := ← bool (← field j "uuid"), name := ← optStr (← field j "name"),
           createdAt := ← optInt (← field j "created_at") }

def dimKind (j : Json) : P DimKind :=
  match j with
  | .str "range" => .ok .range
  | .str "sample" => .ok .sample
  | .str "set" => .ok .set
  | _ => .error "bad dimension kind"

def dim (j : Json) : P Dim := do
  return { kind := ← dimKind (← field j "kind"), index := ← int (← field j "index"),
           ticks := ← (← arr (← field j "ticks")).mapM rat, nLabels := ← nat (← field j "nlabels"),
           interval := ← optRat (← field j "interval"), unit := ← optStr (← field j "unit") }

def dataArray (j : Json) : P DataArray := do
  return { ent := ← ent (← field j "ent"), dataType := ← optStr (← field j "dtype"),
           shape := ← (← arr (← field j "shape")).mapM nat, dims := ← (← arr (← field j "dims")).mapM dim }

def feature (n : Nat) (j : Json) : P Feature := do
  let d ← optNat (← field j "data")
  if let some k := d then
    if k ≥ n then throw "feature data index out of range"
  return { id := ← optStr (← field j "id"), idUuid := ← bool (← field j "uuid"),
           createdAt := ← optInt (← field j "created_at"), data := d,
           linkType := ← optStr (← field j "link_type") }

def refList (n : Nat) (j : Json) : P (List Nat) := do
  let l ← (← arr j).mapM nat
  if l.any (· ≥ n) then throw "reference index out of range"
  return l

def tag (n : Nat) (j : Json) : P Tag := do
  return { ent := ← ent (← field j "ent"), posLen := ← nat (← field j "poslen"),
           extLen := ← nat (← field j "extlen"), units := ← (← arr (← field j "units")).mapM str,
           refs := ← refList n (← field j "refs"),
           features := ← (← arr (← field j "features")).mapM (feature n) }

def optIdx (n : Nat) (j : Json) : P (Option Nat) := do
  let o ← optNat j
  if let some k := o then
    if k ≥ n then throw "array index out of range"
  return o

def mtag (n : Nat) (j : Json) : P MultiTag := do
  return { ent := ← ent (← field j "ent"), positions := ← optIdx n (← field j "positions"),
           extents := ← optIdx n (← field j "extents"), units := ← (← arr (← field j "units")).mapM str,
           refs := ← refList n (← field j "refs"),
           features := ← (← arr (← field j "features")).mapM (feature n) }

partial def source (j : Json) : P Source := do
  return .mk (← ent (← field j "ent")) (← (← arr (← field j "children")).mapM source)

def property (j : Json) : P Property := do
  return { id := ← optStr (← field j "id"), idUuid := ← bool (← field j "uuid"),
           name := ← optStr (← field j "name") }

partial def section_ (j : Json) : P Section := do
  return .mk (← ent (← field j "ent")) (← (← arr (← field j "props")).mapM property)
    (← (← arr (← field j "children")).mapM section_)

def block (j : Json) : P Block := do
  let arrays ← (← arr (← field j "arrays")).mapM dataArray
  let n := arrays.length
  return { ent := ← ent (← field j "ent"), groups := ← (← arr (← field j "groups")).mapM ent,
           arrays := arrays, tags := ← (← arr (← field j "tags")).mapM (tag n),
           mtags := ← (← arr (← field j "mtags")).mapM (mtag n),
           sources := ← (← arr (← field j "sources")).mapM source }

def file (j : Json) : P File := do
  return { createdAt := ← optInt (← field j "created_at"), blocks := ← (← arr (← field j "blocks")).mapM block,
           sections := ← (← arr (← field j "sections")).mapM section_ }

def kindStr : Kind → String
  | .file => "file" | .block => "block" | .group => "group" | .array => "array" | .tag => "tag"
  | .mtag => "mtag" | .source => "source" | .section => "section"

def msgJson : Msg → Json
  | .plain m => Json.arr #[Json.str m.name]
  | .dim m i => Json.arr #[Json.str m.name, Json.num (i : Int)]
  | .dim2 m i v => Json.arr #[Json.str m.name, Json.num (i : Int), Json.num v]
  | .feature i m => Json.arr #[Json.str "feature", Json.num (i : Int), Json.str m.name]
  | .property i m => Json.arr #[Json.str "property", Json.num (i : Int), Json.str m.name]

def entryJson (km : Key × List Msg) : Json :=
  Json.arr #[Json.str (kindStr km.1.kind), Json.arr (km.1.path.map fun (n : Nat) => Json.num (Int.ofNat n)).toArray,
             Json.arr (km.2.map msgJson).toArray]

open Nix.PyGuard in
def pyVal (j : Json) : P Val :=
  match j with
  | .null => .ok .none
  | .arr a =>
    match a.toList with
    | [.str "bool", v] => return .bool (← bool v)
    | [.str "int", v] => return .int (← int v)
    | [.str "rat", v] => return .rat (← rat v)
    | [.str "str", v] => return .str (← str v)
    | [.str "rats", v] => return .rats (← (← arr v).mapM rat)
    | [.str "strs", v] => return .strs (← (← arr v).mapM str)
    | [.str "ints", v] => return .ints (← (← arr v).mapM int)
    | [.str "strss", v] => return .strss (← (← arr v).mapM fun x => do (← arr x).mapM str)
    | [.str "intss", v] => return .intss (← (← arr v).mapM fun x => do (← arr x).mapM int)
    | [.str "sized", v] => return .sized (← nat v)
    | [.str "enum", .str n] => return .enum n
    | _ => .error "bad python value"
  | _ => .error "bad python value"

open Nix.PyGuard in
/-- the environment a JSON object of read paths describes -/
def guardEnv (j : Json) : P (Read → Val) := do
  let vals ← Read.all.mapM fun r =>
    match j.getObjVal? r.path with
    | .ok v => do return (r, ← pyVal v)
    | .error _ => return (r, Val.none)
  return fun r => (vals.lookup r).getD .none

def handle (j : Json) : Json :=
  match jArr j |>.toList with
  | [Json.str "validate", d] =>
    match file d with
    | .error e => bad s!"C14: {e}"
    | .ok f =>
      match validate f with
      | .ok rs => ok (Json.arr (rs.map entryJson).toArray)
      | .error e => err e
  | [Json.str "guards", Json.str fn, e] =>
    match guardTable.lookup fn, guardEnv e with
    | none, _ => bad s!"C14: no compiled guards for {fn}"
    | _, .error m => bad s!"C14: {m}"
    | some sites, .ok env =>
      match Nix.PyGuard.fired env sites with
      | .ok ids => ok (Json.arr (ids.map fun m => Json.str m.name).toArray)
      | .error e => err e
  | [Json.str "linkticks", sh, ix, da] =>
    -- `RangeDimension.ticks` of a dimension linked to a DataArray of that shape / row-major data by that index
    match (do return (← (← arr sh).mapM nat, ← (← arr ix).mapM int, ← (← arr da).mapM rat) : P _) with
    | .error m => bad s!"C14: {m}"
    | .ok (shape, index, data) =>
      match Nix.DimLinkTicks.linkedTicks shape index data with
      | .ok v => ok (Json.arr (v.map fun r => Json.str (ratStr r)).toArray)
      | .error e => err e
  | [Json.str "linkaccept", sh, ix] =>
    -- `Dimension.link_data_array(provider, index)`: accepted (`null`) or the exception class
    match (do return (← (← arr sh).mapM nat, ← (← arr ix).mapM int) : P _) with
    | .error m => bad s!"C14: {m}"
    | .ok (shape, index) =>
      match Nix.DimLinkTicks.linkDataArray shape index with
      | .ok _ => ok Json.null
      | .error e => err e
  | [Json.str "catalogue"] =>
    ok (Json.arr (MsgId.all.map fun m =>
      Json.arr #[Json.str m.name, Json.str m.template, Json.num (m.arity : Int)]).toArray)
  | _ => bad "C14: unknown op"

def main : IO Unit := pureLoop handle

end Driver.C14
