import Driver.Util
import NixModel.Store.Step
open Lean Nix.Store

/-! Line-protocol driver of the structural (HDF5 graph) model; shared by C02 C03 C04 C05 C12 C20. -/
namespace Driver.Store

def parsePath (j : Json) : Option Path :=
  match j with
  | .arr a => a.toList.mapM fun s =>
      match s with
      | .str n => some (Seg.name n)
      | .num _ => (jInt? s).map fun i => Seg.idx i.toNat
      | _ => none
  | _ => none

def resolveKey (g : Graph) (j : Json) : Option Nat := do
  let p ← parsePath j
  let l ← resolve g rootLoc p
  pure l.key

/-- a name argument: a literal, or `{"id": path}` = the id of the entity at that path -/
def parseName (g : Graph) (j : Json) : Option String :=
  match j with
  | .str s => some s
  | .obj _ =>
    match j.getObjVal? "id" with
    | .ok pj => (resolveKey g pj).bind fun k => g.entityId k
    | .error _ => none
  | _ => none

def parseKey (g : Graph) (j : Json) : Option Key :=
  match j.getObjVal? "s" with
  | .ok (.str s) => some (.str s)
  | _ =>
  match j.getObjVal? "id" with
  | .ok pj => ((resolveKey g pj).bind fun k => g.entityId k).map Key.str
  | _ =>
  match j.getObjVal? "nameof" with
  | .ok pj => ((resolveKey g pj).bind fun k => g.getAttr k "name").map Key.str
  | _ =>
  match j.getObjVal? "p" with
  | .ok n => (jInt? n).map Key.pos
  | _ =>
  match j.getObjVal? "o" with
  | .ok pj => (resolveKey g pj).map Key.ent
  | _ => none

def ident (g : Graph) (k : Nat) : Json :=
  Json.arr #[match g.getAttr k "name" with | some n => Json.str n | none => Json.null,
             match g.entityId k with | some i => Json.str i | none => Json.null]

def optPathKey (g : Graph) (j : Json) : Except String (Option Nat) :=
  if isNull j then .ok none
  else match resolveKey g j with
    | some k => .ok (some k)
    | none => .error "unresolvable path"

def trackedAttrs : List String :=
  ["name", "type", "entity_id", "definition", "label", "unit", "link_type", "target_type",
   "repository", "reference"]

/-- canonical dump of everything reachable from `/`: nodes numbered by first visit (DFS, link
order); empty attribute-less groups (container groups nixio creates eagerly) are dropped -/
partial def dumpFrom (g : Graph) : Json :=
  let isEmptyCont (k : Nat) : Bool :=
    match g.node? k with
    | some n => n.kind == .group && n.links.isEmpty && (n.attrs.filter (fun kv => kv.1 != "~kind")).isEmpty && k != 0
    | none => true
  let rec visit (k : Nat) (seen : List Nat) (out : Array Json) : List Nat × Array Json :=
    if seen.contains k then (seen, out)
    else
      let seen := seen ++ [k]
      let n := (g.node? k).getD {}
      let kids := n.links.filter fun l => !isEmptyCont l.2
      -- children first get their numbers in DFS order; we emit the node after computing them
      let (seen', out') := kids.foldl (fun (acc : List Nat × Array Json) l => visit l.2 acc.1 acc.2) (seen, out)
      let num (x : Nat) : Nat := (seen'.idxOf x)
      let attrs := (n.attrs.filter fun kv => trackedAttrs.contains kv.1)
      let attrs := attrs.toArray.qsort (fun a b => a.1 < b.1)
      let node := Json.mkObj [
        ("n", Json.num (num k)),
        ("kind", Json.str (match n.kind with | .group => "group" | .dataset => "dataset")),
        ("attrs", Json.mkObj (attrs.toList.map fun kv => (kv.1, Json.str kv.2))),
        ("links", Json.arr (kids.map fun l => Json.arr #[Json.str l.1, Json.num (num l.2)]).toArray)]
      (seen', out'.push node)
  let (_, out) := visit 0 [] #[]
  Json.arr (out.qsort fun a b =>
    match a.getObjVal? "n", b.getObjVal? "n" with
    | .ok x, .ok y => (jInt? x).getD 0 < (jInt? y).getD 0
    | _, _ => false)

def applyG (g : Graph) (r : Except Nix.Err Graph) : Graph × Json :=
  match r with
  | .ok g' => (g', ok Json.null)
  | .error e => (g, err e)

def step (g : Graph) (j : Json) : Graph × Json :=
  match (jArr j).toList with
  | [.str "reset"] => (init, ok Json.null)
  | [.str "noop"] => (g, ok Json.null)
  | [.str "create_block", nm, .str ty] =>
    match parseName g nm with
    | some name => applyG g (createBlock g name ty)
    | none => (g, bad "name")
  | [.str "create_section", pj, nm, .str ty] =>
    match parsePath pj, parseName g nm with
    | some p, some name => applyG g (createSection g p name ty)
    | _, _ => (g, bad "args")
  | [.str "create", pj, .str what, nm, .str ty, extra] =>
    match parsePath pj, parseName g nm, optPathKey g extra with
    | some p, some name, .ok ex => applyG g (createIn g p what name ty ex)
    | _, _, _ => (g, bad "args")
  | [.str "create_property", pj, nm] =>
    match parsePath pj, parseName g nm with
    | some p, some name => applyG g (createProperty g p name)
    | _, _ => (g, bad "args")
  | [.str "create_feature", pj, dj, .str lt] =>
    match parsePath pj, optPathKey g dj with
    | some p, .ok d => applyG g (createFeature g p d lt)
    | _, _ => (g, bad "args")
  | [.str "del", pj, .str cname, kj] =>
    match parsePath pj with
    | none => (g, bad "path")
    | some p =>
      match openCont g p cname, parseKey g kj with
      | some c, some key => applyG g (contDel g c key)
      | none, _ => (g, bad "container")
      | _, none => (g, bad "key")
  | [.str "append", pj, .str cname, kj] =>
    match parsePath pj with
    | none => (g, bad "path")
    | some p =>
      match openCont g p cname, parseKey g kj with
      | some c, some key => applyG g (contAppend g c key)
      | none, _ => (g, bad "container")
      | _, none => (g, bad "key")
  | [.str "set_role", pj, .str role, tj] =>
    match parsePath pj, optPathKey g tj with
    | some p, .ok t => applyG g (setRole g p role t)
    | _, _ => (g, bad "args")
  | [.str "set_attr", pj, .str attr, v] =>
    match parsePath pj with
    | some p =>
      let val : Option String := match v with | .str s => some s | _ => none
      applyG g (setAttrOp g p attr val)
    | none => (g, bad "path")
  | [.str "len", pj, .str cname] =>
    match (parsePath pj).bind fun p => openCont g p cname with
    | some c => (g, ok (Json.num (cLinks g c.node).length))
    | none => (g, bad "container")
  | [.str "list", pj, .str cname] =>
    match (parsePath pj).bind fun p => openCont g p cname with
    | some c => (g, ok (Json.arr ((cLinks g c.node).map fun l => ident g l.2).toArray))
    | none => (g, bad "container")
  | [.str "get", pj, .str cname, kj] =>
    match (parsePath pj).bind fun p => openCont g p cname with
    | some c =>
      match parseKey g kj with
      | some key =>
        match contGet g c key with
        | .ok l => (g, ok (ident g l.2))
        | .error e => (g, err e)
      | none => (g, bad "key")
    | none => (g, bad "container")
  | [.str "has", pj, .str cname, kj] =>
    match (parsePath pj).bind fun p => openCont g p cname with
    | some c =>
      match parseKey g kj with
      | some key =>
        match contHas g c key with
        | .ok b => (g, ok (Json.bool b))
        | .error e => (g, err e)
      | none => (g, bad "key")
    | none => (g, bad "container")
  | [.str "role", pj, .str role] =>
    match (parsePath pj).bind fun p => resolve g rootLoc p with
    | some o =>
      match g.child? o.key role with
      | some t => (g, ok (ident g t))
      | none => (g, ok Json.null)
    | none => (g, bad "path")
  | [.str "dump"] => (g, ok (dumpFrom g))
  | _ => (g, bad "store: unknown op")

def main : IO Unit := loop init step

end Driver.Store
