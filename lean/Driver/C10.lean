import Driver.Util
open Lean

namespace Driver.C10

/-- stub: replaced when the model of C10 is built -/
def main : IO Unit := pureLoop fun _ => bad "C10: model driver not built yet"

end Driver.C10
