import Driver.Util
import NixModel.Pure.PropVals
import NixModel.Pure.PropHandles
open Lean Nix.PropVals

/-!
Line protocol of the C10 model driver (one JSON array per line, state threaded through):

  ["reset"]                              a fresh, empty section
  ["create", name, input]                section.create_property(name, input)
  ["set"|"extend", pkey, input]          section.props[pkey].values = input / .extend_values(input)
  ["clear", pkey]                        .delete_values()
  ["setattr", pkey, attr, attrval]       optional attribute setters
  ["setodml", pkey, odml|null]
  ["get", pkey]                          the whole property record
  ["mksec", name, type]                  section.create_section
  ["getitem", key] ["setitem", name, input|{"S": type}] ["delitem", pkey] ["contains", key]
  ["len"] ["items"] ["iter"] ["reopen"]
  ["hold", h, pkey]                      h = section.props[pkey]       (a kept Property object; h is a number)
  ["createh", h, name, input]            h = section.create_property(name, input)
  ["hset"|"hextend", h, input] ["hclear", h] ["hsetattr", h, attr, attrval] ["hsetodml", h, odml|null]
  ["hget", h] ["drop", h]                calls through the kept object

strings are arrays of code points; ints / float bit patterns are decimal strings.
Answer: {"ok": result, "state": dump} or {"err": class, "state": dump}; the dump lists, under "handles", the
record every kept object must report.
-/
namespace Driver.C10

abbrev Str := List Char

def str? (j : Json) : Option Str :=
  match j with
  | .arr a => a.toList.mapM fun x => (jInt? x).map fun i => Char.ofNat i.toNat
  | _ => none

def strJ (s : Str) : Json := Json.arr (s.map fun c => Json.num (JsonNumber.fromNat c.toNat)).toArray

def dec? (j : Json) : Option Int :=
  match j with
  | .str s => s.toInt?
  | _ => jInt? j

def decNat? (j : Json) : Option Nat := (dec? j).bind fun i => if i < 0 then none else some i.toNat

def field? (j : Json) (k : String) : Option Json :=
  match j.getObjVal? k with
  | .ok v => some v
  | _ => none

def bool? (j : Json) : Option Bool := match j with | .bool b => some b | _ => none

def dtype? (s : String) : Option DType :=
  match s with
  | "bool" => some .bool | "int8" => some .int8 | "int16" => some .int16 | "int32" => some .int32
  | "int64" => some .int64 | "uint8" => some .uint8 | "uint16" => some .uint16
  | "uint32" => some .uint32 | "uint64" => some .uint64 | "float32" => some .float32
  | "float64" => some .float64 | "string" => some .string
  | _ => none

def dtypeS : DType → String
  | .bool => "bool" | .int8 => "int8" | .int16 => "int16" | .int32 => "int32" | .int64 => "int64"
  | .uint8 => "uint8" | .uint16 => "uint16" | .uint32 => "uint32" | .uint64 => "uint64"
  | .float32 => "float32" | .float64 => "float64" | .string => "string"

def pyval? (j : Json) : Option PyVal := do
  let c ← field? j "c"
  match c with
  | .str "other" => some .other
  | .str cls =>
    let v ← field? j "v"
    match cls with
    | "bool" => (bool? v).map .pyBool
    | "npBool" => (bool? v).map .npBool
    | "int" => (dec? v).map .pyInt
    | "npInt" => (dec? v).map .npInt
    | "float" => (decNat? v).map .pyFloat
    | "npFloat" => (decNat? v).map .npFloat
    | "str" => (str? v).map .pyStr
    | "npStr" => (str? v).map .npStr
    | _ => none
  | _ => none

def cell? (j : Json) : Option Cell :=
  match field? j "b", field? j "i", field? j "f", field? j "s" with
  | some v, _, _, _ => (bool? v).map .b
  | _, some v, _, _ => (dec? v).map .i
  | _, _, some v, _ => (decNat? v).map .f
  | _, _, _, some v => (str? v).map .s
  | _, _, _, _ => none

def cellJ : Cell → Json
  | .b v => Json.mkObj [("b", Json.bool v)]
  | .i v => Json.mkObj [("i", Json.str (toString v))]
  | .f v => Json.mkObj [("f", Json.str (toString v))]
  | .s v => Json.mkObj [("s", strJ v)]

def typeArg? (s : String) : Option TypeArg :=
  match s with
  | "bool" => some .pyBool | "int" => some .pyInt | "float" => some .pyFloat | "str" => some .pyStr
  | _ => if s.startsWith "np:" then (dtype? (s.drop 3).toString).map .np else none

def input? (j : Json) : Option Input :=
  if isNull j then some .none else
  match field? j "scalar", field? j "list", field? j "nd", field? j "type" with
  | some v, _, _, _ => (pyval? v).map .scalar
  | _, some v, _, _ => ((jArr v).toList.mapM pyval?).map .list
  | _, _, some v, _ => do
    let dts ← field? v "dt"
    let dt ← match dts with
      | .str "ustr" => some ADType.ustr
      | .str "other" => some ADType.other
      | .str s => (dtype? s).map ADType.num
      | _ => none
    let shape ← (jArr (← field? v "shape")).toList.mapM fun x => (jInt? x).map Int.toNat
    let data ← (jArr (← field? v "data")).toList.mapM cell?
    some (.ndarray dt shape data)
  | _, _, _, some (.str s) => (typeArg? s).map .type
  | _, _, _, _ => none

def key? (j : Json) : Option Key :=
  match field? j "n", field? j "id" with
  | some v, _ => (str? v).map .name
  | _, some v => (decNat? v).map .id
  | _, _ => none

def pkey? (j : Json) : Option PKey :=
  match field? j "i" with
  | some v => (jInt? v).map .idx
  | none => (key? j).map .key

def attrName? (s : String) : Option AttrName :=
  match s with
  | "definition" => some .definition | "unit" => some .unit | "uncertainty" => some .uncertainty
  | "reference" => some .reference | "dependency" => some .dependency
  | "dependency_value" => some .dependencyValue | "value_origin" => some .valueOrigin
  | _ => none

def attrVal? (j : Json) : Option AttrVal :=
  if isNull j then some .none else
  match field? j "str", field? j "num", field? j "other" with
  | some v, _, _ => (str? v).map .str
  | _, some v, _ => do
    let t ← bool? (← field? v "t")
    let b ← decNat? (← field? v "bits")
    some (.num t b)
  | _, _, some v => (bool? v).map .other
  | _, _, _ => none

def odml? (s : String) : Option OdmlType :=
  match s with
  | "boolean" => some .boolean | "int" => some .int | "float" => some .float
  | "string" => some .string | "text" => some .text | "url" => some .url
  | "person" => some .person | "datetime" => some .datetime | "date" => some .date
  | "time" => some .time
  | _ => none

def odmlS : OdmlType → String
  | .boolean => "boolean" | .int => "int" | .float => "float" | .string => "string"
  | .text => "text" | .url => "url" | .person => "person" | .datetime => "datetime"
  | .date => "date" | .time => "time"

def optStrJ : Option Str → Json
  | some s => strJ s
  | none => Json.null

def propJ (p : PropRec) : Json :=
  Json.mkObj [
    ("name", strJ p.name), ("id", Json.num (JsonNumber.fromNat p.id)), ("dtype", Json.str (dtypeS p.dtype)),
    ("vals", Json.arr (p.vals.map cellJ).toArray),
    ("attrs", Json.mkObj [
      ("definition", optStrJ p.attrs.definition), ("unit", optStrJ p.attrs.unit),
      ("uncertainty", match p.attrs.uncertainty with | some b => Json.str (toString b) | none => Json.null),
      ("reference", optStrJ p.attrs.reference), ("dependency", optStrJ p.attrs.dependency),
      ("dependency_value", optStrJ p.attrs.dependencyValue),
      ("value_origin", optStrJ p.attrs.valueOrigin),
      ("odml_type", match p.attrs.odmlType with | some o => Json.str (odmlS o) | none => Json.null)])]

def secJ (s : SecRec) : Json :=
  Json.mkObj [("name", strJ s.name), ("id", Json.num (JsonNumber.fromNat s.id))]

def stateJ (st : State) : Json :=
  Json.mkObj [("props", Json.arr (st.props.map propJ).toArray),
              ("secs", Json.arr (st.secs.map secJ).toArray)]

def hstateJ (hs : HState) : Json :=
  Json.mkObj [("props", Json.arr (hs.st.props.map propJ).toArray),
              ("secs", Json.arr (hs.st.secs.map secJ).toArray),
              ("handles", Json.mkObj (hs.handles.map fun e =>
                (toString e.1, match hs.st.props.find? (·.id == e.2) with
                               | some p => propJ p
                               | none => Json.null)))]

def resJ : Res → Json
  | .unit => Json.null
  | .prop p => propJ p
  | .item (.section s) => Json.mkObj [("section", secJ s)]
  | .item (.scalar c) => Json.mkObj [("scalar", cellJ c)]
  | .item (.values cs) => Json.mkObj [("values", Json.arr (cs.map cellJ).toArray)]
  | .bool b => Json.bool b
  | .nat n => Json.num (JsonNumber.fromNat n)
  | .items l => Json.arr (l.map fun (n, k) =>
      Json.arr #[strJ n, Json.str (match k with | .prop => "prop" | .sec => "sec")]).toArray

def op? (j : Json) : Option Op :=
  match (jArr j).toList with
  | [.str "create", n, i] => do some (.create (← str? n) (← input? i))
  | [.str "set", k, i] => do some (.set (← pkey? k) (← input? i))
  | [.str "extend", k, i] => do some (.extend (← pkey? k) (← input? i))
  | [.str "clear", k] => do some (.clear (← pkey? k))
  | [.str "setattr", k, .str a, v] => do some (.setAttr (← pkey? k) (← attrName? a) (← attrVal? v))
  | [.str "setodml", k, o] =>
    match o with
    | .str s => do some (.setOdml (← pkey? k) (some (← odml? s)))
    | _ => do some (.setOdml (← pkey? k) none)
  | [.str "get", k] => do some (.get (← pkey? k))
  | [.str "mksec", n, t] => do some (.mksec (← str? n) (← str? t))
  | [.str "getitem", k] => do some (.getitem (← key? k))
  | [.str "setitem", n, v] =>
    match field? v "S" with
    | some t => do some (.setitem (← str? n) (.S (← str? t)))
    | none => do some (.setitem (← str? n) (.val (← input? v)))
  | [.str "delitem", k] => do some (.delitem (← pkey? k))
  | [.str "contains", k] => do some (.contains (← key? k))
  | [.str "len"] => some .len
  | [.str "items"] => some .items
  | [.str "reopen"] => some .reopen
  | [.str "iter"] => some .iter
  | _ => none

def hnat? (j : Json) : Option Nat := (jInt? j).bind fun i => if i < 0 then none else some i.toNat

def hop? (j : Json) : Option HOp :=
  match (jArr j).toList with
  | [.str "hold", h, k] => do some (.hold (← hnat? h) (← pkey? k))
  | [.str "createh", h, n, i] => do some (.createHold (← hnat? h) (← str? n) (← input? i))
  | [.str "hset", h, i] => do some (.hset (← hnat? h) (← input? i))
  | [.str "hextend", h, i] => do some (.hextend (← hnat? h) (← input? i))
  | [.str "hclear", h] => do some (.hclear (← hnat? h))
  | [.str "hsetattr", h, .str a, v] => do some (.hsetAttr (← hnat? h) (← attrName? a) (← attrVal? v))
  | [.str "hsetodml", h, o] =>
    match o with
    | .str s => do some (.hsetOdml (← hnat? h) (some (← odml? s)))
    | _ => do some (.hsetOdml (← hnat? h) none)
  | [.str "hget", h] => do some (.hget (← hnat? h))
  | [.str "drop", h] => do some (.drop (← hnat? h))
  | _ => (op? j).map .plain

def handle (hs : HState) (j : Json) : HState × Json :=
  match (jArr j).toList with
  | [.str "reset"] => (HState.init, Json.mkObj [("ok", Json.null), ("state", hstateJ HState.init)])
  | _ =>
    match hop? j with
    | none => (hs, bad "C10: malformed operation")
    | some op =>
      if !op.WF then (hs, bad "C10: ill-formed array input") else
      let (hs', out) := hstep hs op
      match out with
      | .ok r => (hs', Json.mkObj [("ok", resJ r), ("state", hstateJ hs')])
      | .error e => (hs', Json.mkObj [("err", Json.str e.toString), ("state", hstateJ hs')])

def main : IO Unit := loop HState.init handle

end Driver.C10
