import Driver.C14

/-- stand-alone driver of C14 (isolated from the other properties' driver files) -/
def main : IO Unit := Driver.C14.main
