import Driver.C03

/-- stand-alone driver of C03 (isolated from the other properties' driver files) -/
def main : IO Unit := Driver.C03.main
