import Driver.C05

/-- stand-alone driver of C05 (isolated from the other properties' driver files) -/
def main : IO Unit := Driver.C05.main
