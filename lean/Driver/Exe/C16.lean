import Driver.C16

/-- stand-alone driver of C16 (isolated from the other properties' driver files) -/
def main : IO Unit := Driver.C16.main
