import Driver.C04

/-- stand-alone driver of C04 (isolated from the other properties' driver files) -/
def main : IO Unit := Driver.C04.main
