import Driver.C11

/-- stand-alone driver of C11 (isolated from the other properties' driver files) -/
def main : IO Unit := Driver.C11.main
