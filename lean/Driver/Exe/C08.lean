import Driver.C08

/-- stand-alone driver of C08 (isolated from the other properties' driver files) -/
def main : IO Unit := Driver.C08.main
