import Driver.C18

/-- stand-alone driver of C18 (isolated from the other properties' driver files) -/
def main : IO Unit := Driver.C18.main
