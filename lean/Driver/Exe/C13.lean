import Driver.C13

/-- stand-alone driver of C13 (isolated from the other properties' driver files) -/
def main : IO Unit := Driver.C13.main
