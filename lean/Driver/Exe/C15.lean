import Driver.C15

/-- stand-alone driver of C15 (isolated from the other properties' driver files) -/
def main : IO Unit := Driver.C15.main
