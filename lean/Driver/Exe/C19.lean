import Driver.C19

/-- stand-alone driver of C19 (isolated from the other properties' driver files) -/
def main : IO Unit := Driver.C19.main
