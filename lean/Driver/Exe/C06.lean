import Driver.C06

/-- stand-alone driver of C06 (isolated from the other properties' driver files) -/
def main : IO Unit := Driver.C06.main
