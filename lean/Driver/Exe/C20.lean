import Driver.C20

/-- stand-alone driver of C20 (isolated from the other properties' driver files) -/
def main : IO Unit := Driver.C20.main
