import Driver.C07

/-- stand-alone driver of C07 (isolated from the other properties' driver files) -/
def main : IO Unit := Driver.C07.main
