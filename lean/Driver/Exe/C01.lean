import Driver.C01

/-- stand-alone driver of C01 (isolated from the other properties' driver files) -/
def main : IO Unit := Driver.C01.main
