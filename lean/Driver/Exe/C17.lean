import Driver.C17

/-- stand-alone driver of C17 (isolated from the other properties' driver files) -/
def main : IO Unit := Driver.C17.main
