import Driver.C12

/-- stand-alone driver of C12 (isolated from the other properties' driver files) -/
def main : IO Unit := Driver.C12.main
