import Driver.C02

/-- stand-alone driver of C02 (isolated from the other properties' driver files) -/
def main : IO Unit := Driver.C02.main
