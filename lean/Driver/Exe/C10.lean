import Driver.C10

/-- stand-alone driver of C10 (isolated from the other properties' driver files) -/
def main : IO Unit := Driver.C10.main
