import Driver.C09

/-- stand-alone driver of C09 (isolated from the other properties' driver files) -/
def main : IO Unit := Driver.C09.main
