import Driver.Util
open Lean

namespace Driver.C02

/-- stub: replaced when the model of C02 is built -/
def main : IO Unit := pureLoop fun _ => bad "C02: model driver not built yet"

end Driver.C02
