import Driver.Store2
import NixModel.Pure.Handles
open Lean

namespace Driver.C02

/-- C02 is decided on the structural (HDF5 graph) model — the two-file driver of `Driver.Store2`
(with `noop` where the implementation closes and reopens the file) — plus the handle machine
`Nix.Handles` (ops prefixed `h_`): `H5Group` handles on the children of one parent group. -/
structure St where
  store : Driver.Store2.St := {}
  hs : Nix.Handles.St := {}
  code : Nix.Handles.Code := Nix.Handles.Code.current
  ents : Array Nat := #[]        -- entity ordinal → heap id
  deriving Inhabited

open Nix.Handles in
def outJson (s : St) : Out → Json
  | .done => ok Json.null
  | .refused e => err e
  | .entries l => ok (Json.arr (l.map fun kv =>
      Json.arr #[Json.str kv.1, match s.ents.idxOf? kv.2 with
        | some j => Json.num j
        | none => Json.num (-1 : Int)]).toArray)
  | .value v => ok (match v with | some x => Json.str x | none => Json.null)
  | .handle i => ok (Json.num i)
  | .obj k => ok (Json.num k)
  | .bad => bad "no such handle"

open Nix.Handles in
def hstep (s : St) (op : Op) : St × Json :=
  let (hs', out) := Nix.Handles.step s.code s.hs op
  let s' := { s with hs := hs' }
  match out with
  | .obj k => ({ s' with ents := s'.ents.push k }, ok (Json.num s.ents.size))
  | o => (s', outJson s' o)

def natOf (j : Json) : Option Nat := (jInt? j).map Int.toNat

open Nix.Handles in
def step (s : St) (j : Json) : St × Json :=
  match (jArr j).toList with
  | [.str "h_reset", d, .str which] =>
    let code := if which == "before" then Code.before else Code.current
    ({ s with hs := { depth := (natOf d).getD 5 }, code := code, ents := #[] }, ok Json.null)
  | [.str "h_open", .str name, .bool create] => hstep s (.openH name create)
  | [.str "h_read", i] =>
    match natOf i with | some n => hstep s (.read n) | none => (s, bad "index")
  | [.str "h_get_attr", i, .str a] =>
    match natOf i with | some n => hstep s (.getAttr n a) | none => (s, bad "index")
  | [.str "h_link", i, .str key, t] =>
    match natOf i, (natOf t).bind fun o => s.ents[o]? with
    | some n, some tgt => hstep s (.createLink n key tgt)
    | _, _ => (s, bad "args")
  | [.str "h_del", i, .str key, .bool die] =>
    match natOf i with | some n => hstep s (.delete n key die) | none => (s, bad "index")
  | [.str "h_set_attr", i, .str a, v] =>
    match natOf i with
    | some n => hstep s (.setAttr n a (match v with | .str x => some x | _ => none))
    | none => (s, bad "index")
  | [.str "h_new"] => hstep s .newEntity
  | [.str "h_plink", .str name, t] =>
    match (natOf t).bind fun o => s.ents[o]? with
    | some tgt => hstep s (.plink name tgt)
    | none => (s, bad "target")
  | [.str "h_punlink", .str name] => hstep s (.punlink name)
  | [.str "h_truth", .str name] => (s, outJson s (.entries (truth s.hs name)))
  | _ =>
    let (st', out) := Driver.Store2.step s.store j
    ({ s with store := st' }, out)

def main : IO Unit := loop ({} : St) step

end Driver.C02
