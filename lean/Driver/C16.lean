import Driver.Util
import NixModel.Pure.Frame
import NixModel.Pure.FrameRec
import NixModel.Pure.FrameBytes
import NixModel.Pure.FrameFx
import NixModel.Pure.FrameBlock
open Lean Nix Nix.Frame

namespace Driver.C16

def tyOf? : String → Option ColType
  | "text" => some .text | "i8" => some .i8 | "i16" => some .i16 | "i32" => some .i32
  | "i64" => some .i64 | "u8" => some .u8 | "f64" => some .f64 | "bool" => some .bool
  | _ => none

def tyStr : ColType → String
  | .text => "text" | .i8 => "i8" | .i16 => "i16" | .i32 => "i32"
  | .i64 => "i64" | .u8 => "u8" | .f64 => "f64" | .bool => "bool"

def parseRat? (s : String) : Option Rat :=
  match s.splitOn "/" with
  | [a, b] => match a.toInt?, b.toNat? with
    | some n, some d => if d = 0 then none else some (mkRat n d)
    | _, _ => none
  | _ => none

def val? (j : Json) : Option Val :=
  match (jArr j).toList with
  | [Json.str "i", n] => (jInt? n).map Val.int
  | [Json.str "f", Json.str s] => (parseRat? s).map Val.flt
  | [Json.str "b", Json.bool b] => some (Val.bool b)
  | [Json.str "s", Json.str s] => some (Val.str s)
  | _ => none

def valJ : Val → Json
  | .int n => Json.arr #[Json.str "i", Json.num (JsonNumber.fromInt n)]
  | .flt r => Json.arr #[Json.str "f", Json.str (ratStr r)]
  | .bool b => Json.arr #[Json.str "b", Json.bool b]
  | .str s => Json.arr #[Json.str "s", Json.str s]

def listOf? {α : Type} (p : Json → Option α) (j : Json) : Option (List α) :=
  match j with
  | .arr a => a.toList.mapM p
  | _ => none

def optOf? {α : Type} (p : Json → Option α) (j : Json) : Option (Option α) :=
  if isNull j then some none else (p j).map some

def str? : Json → Option String | .str s => some s | _ => none
def ty? (j : Json) : Option ColType := (str? j).bind tyOf?
def row? : Json → Option (List Val) := listOf? val?
def rows? : Json → Option (List (List Val)) := listOf? row?
def ints? : Json → Option (List Int) := listOf? jInt?
def col? (j : Json) : Option (String × ColType) :=
  match (jArr j).toList with
  | [Json.str n, t] => (ty? t).map (fun t => (n, t))
  | _ => none
def cols? : Json → Option (List (String × ColType)) := listOf? col?

def rowJ (r : Row) : Json := Json.arr (r.map valJ).toArray
def rowsJ (rs : List Row) : Json := Json.arr (rs.map rowJ).toArray
def unitJ : Option String → Json | none => Json.null | some u => Json.str u

def dump (f : Frame) : Json :=
  Json.mkObj [
    ("cols", Json.arr (f.cols.map (fun c => Json.arr #[Json.str c.1, Json.str (tyStr c.2)])).toArray),
    ("rows", rowsJ f.rows),
    ("units", match unitsOf f with | none => Json.null | some us => Json.arr (us.map unitJ).toArray),
    ("shape", Json.arr #[Json.num (JsonNumber.fromNat (dfShape f).1), Json.num (JsonNumber.fromNat (dfShape f).2)]),
    ("row_count", Json.num (JsonNumber.fromNat (rowCount f))),
    ("columns", Json.arr ((columns f).map (fun c =>
        Json.arr #[Json.str c.1, Json.str (tyStr c.2.1), unitJ c.2.2])).toArray)]

/-- cells outside the modelled domain (see the header of Pure/Frame.lean) -/
def bigForFloat (t : ColType) (v : Val) : Bool :=
  match t, v with
  | .f64, .int n => decide (n.natAbs > 9007199254740992)
  | _, _ => false

def cellOutside (nonAtomic : Bool) (t : ColType) (v : Val) : Bool :=
  bigForFloat t v || (nonAtomic && t == .text && (match v with | .str _ => false | _ => true))

def rowsOutside (nonAtomic : Bool) (ts : List ColType) (rows : List (List Val)) : Bool :=
  rows.any (fun r => (ts.zip r).any (fun p => cellOutside nonAtomic p.1 p.2))

/-- The driver runs the **byte-level** machine of `Pure/FrameBytes.lean` (text cells stored as UTF-8 bytes, reads =
    raw selection + `_convert_string_cols`), with `append_rows`, `write_column` and `append_column` in their
    effect-by-effect form of `Pure/FrameFx.lean` (two conversion stages, roll-back handlers);
    `C16_storage_simulates` / `C16_storage_reads` / `C16_rollbacks_restore` prove it equal to the abstract model the
    property theorems are stated on. -/
abbrev St := Option SFrame

/-- what `frame[:]` plus the schema reports show: the converted table -/
def sDump (s : SFrame) : Json :=
  match sReadAll s with
  | .ok rows => ok (dump ⟨s.cols, rows, s.units⟩)
  | .error e => err e

def created (r : Except Err Frame) : St × Json :=
  match sCreated r with
  | .ok s => (some s, sDump s)
  | .error e => (none, err e)

def wrote (p : SFrame × Option Err) : St × Json :=
  match p.2 with
  | none => (some p.1, ok Json.null)
  | some e => (some p.1, err e)

def readOut {α : Type} (s : St) (r : Except Err α) (j : α → Json) : St × Json :=
  match r with
  | .ok v => (s, ok (j v))
  | .error e => (s, err e)

def outside : St × Json := (none, bad "C16: input outside the modelled domain")

/-- the presentation object of a line whose rows are handed over as a NumPy structured array:
    `{"rec": [[field name, field type], …], "mem": [memory rank of each field], "pad": …, "how": …}`;
    `dflt` are the fields when the object has no "rec" (create_struct: the columns are the fields) -/
def recOf? (fm : Json) (dflt : Option (List (String × ColType))) (rows : List Row) : Option RecArray :=
  let fields? : Option (List (String × ColType)) := match fm.getObjVal? "rec" with
    | .ok j => cols? j
    | .error _ => dflt
  match fields? with
  | none => none
  | some fs =>
    let mem : List Nat := match fm.getObjVal? "mem" with
      | .ok (.arr a) => a.toList.filterMap (fun j => (jInt? j).map Int.toNat)
      | _ => List.range fs.length
    if mem.length ≠ fs.length then none
    else some ⟨(fs.zip mem).map (fun p => (p.1.1, p.1.2, p.2)), rows⟩

def isForm (j : Json) : Bool := match j with | .obj _ => true | _ => false

def handle (s : St) (j : Json) : St × Json :=
  match (jArr j).toList with
  | [Json.str "create_dict", cs, d] =>
    match cols? cs, optOf? rows? d with
    | some cs, some d =>
      if rowsOutside true (cs.map (·.2)) (d.getD []) then outside else created (createDict cs d)
    | _, _ => (s, bad "C16: create_dict")
  | [Json.str "create_names_types", ns, ts, d] =>
    match listOf? str? ns, listOf? ty? ts, optOf? rows? d with
    | some ns, some ts, some d =>
      if rowsOutside true ts (d.getD []) then outside else created (createNamesTypes ns ts d)
    | _, _, _ => (s, bad "C16: create_names_types")
  | [Json.str "create_names_data", ns, d] =>
    match listOf? str? ns, optOf? rows? d with
    | some ns, some d =>
      let ts := match d with | some (r :: _) => r.map typeOfVal | _ => []
      if rowsOutside true ts (d.getD []) then outside else created (createNamesData ns d)
    | _, _ => (s, bad "C16: create_names_data")
  | [Json.str "create_struct", cs, d] =>
    match cols? cs, rows? d with
    | some cs, some d =>
      if rowsOutside true (cs.map (·.2)) d then outside else created (createStruct cs d)
    | _, _ => (s, bad "C16: create_struct")
  | [Json.str "create_dict", cs, d, fm] =>
    match cols? cs, rows? d with
    | some cs, some d =>
      match recOf? fm none d with
      | some r => if rowsOutside true (cs.map (·.2)) d then outside else created (createDictRec cs r)
      | none => (s, bad "C16: create_dict form")
    | _, _ => (s, bad "C16: create_dict")
  | [Json.str "create_names_types", ns, ts, d, fm] =>
    match listOf? str? ns, listOf? ty? ts, rows? d with
    | some ns, some ts, some d =>
      match recOf? fm none d with
      | some r => if rowsOutside true ts d then outside else created (createNamesTypesRec ns ts r)
      | none => (s, bad "C16: create_names_types form")
    | _, _, _ => (s, bad "C16: create_names_types")
  | [Json.str "create_names_data", ns, d, fm] =>
    match listOf? str? ns, rows? d with
    | some ns, some d =>
      match recOf? fm none d with
      | some r => if rowsOutside true r.types d then outside else created (createNamesRec ns r)
      | none => (s, bad "C16: create_names_data form")
    | _, _ => (s, bad "C16: create_names_data")
  | [Json.str "create_struct", cs, d, fm] =>
    match cols? cs, rows? d with
    | some cs, some d =>
      match recOf? fm (some cs) d with
      | some r => if rowsOutside true (cs.map (·.2)) d then outside else created (createStructRec r)
      | none => (s, bad "C16: create_struct form")
    | _, _ => (s, bad "C16: create_struct")
  | op :: args =>
    match s with
    | none => (s, bad "C16: no frame")
    | some f =>
      match op, args with
      | Json.str "dump", [] => (s, sDump f)
      | Json.str "reopen", [] => (s, ok Json.null)
      -- another live DataFrame object of the same frame: objects carry no state (`C16_handles_stateless`)
      | Json.str "handle", [k] => match jInt? k with
        | some _ => (s, ok Json.null)
        | none => (s, bad "C16: handle")
      | Json.str "append_rows", [d] =>
        match rows? d with
        | some d => if rowsOutside false f.types d then outside else wrote (fxAppendRows f d [])
        | none => (s, bad "C16: append_rows")
      | Json.str "append_rows", [d, fm] =>
        match rows? d with
        | some d =>
          match recOf? fm none d with
          | some r => if rowsOutside false f.types d then outside else wrote (fxAppendRows f r.tuples [])
          | none => (s, bad "C16: append_rows form")
        | none => (s, bad "C16: append_rows")
      | Json.str "append_column", [c, Json.str n, t] =>
        match row? c, optOf? ty? t with
        | some c, some t =>
          let tt := match t, c with | some t, _ => t | none, v :: _ => typeOfVal v | none, [] => .i64
          if c.any (cellOutside false tt) then outside else (let p := fxAppendColumn ⟨f, none⟩ c n t; wrote (p.1.data, p.2))
        | _, _ => (s, bad "C16: append_column")
      | Json.str "write_rows", [d, ix] =>
        match rows? d, ints? ix with
        | some d, some ix => if rowsOutside false f.types d then outside else wrote (fxWriteRows f d ix)
        | _, _ => (s, bad "C16: write_rows")
      | Json.str "write_rows", [d, ix, fm] =>
        match rows? d, ints? ix with
        | some d, some ix =>
          match recOf? fm none d with
          | some r => if rowsOutside false f.types d then outside else wrote (fxWriteRows f r.tuples ix)
          | none => (s, bad "C16: write_rows form")
        | _, _ => (s, bad "C16: write_rows")
      | Json.str "write_row_flat", [d, ix, fm] =>
        match row? d, ints? ix with
        | some (Val.str _ :: _), _ => outside
        | some d, some ix =>
          if !isForm fm then (s, bad "C16: write_row_flat form")
          else if rowsOutside false f.types [d] then outside else wrote (sstep f (OpR.toOp (.writeRowVoid d ix)))
        | _, _ => (s, bad "C16: write_row_flat")
      | Json.str "write_row_flat", [d, ix] =>
        match row? d, ints? ix with
        | some (Val.str _ :: _), _ => outside
        | some d, some ix => if rowsOutside false f.types [d] then outside else wrote (sstep f (.writeRowFlat d ix))
        | _, _ => (s, bad "C16: write_row_flat")
      | Json.str "write_column", [c, ix, n] =>
        match row? c, optOf? jInt? ix, optOf? str? n with
        | some c, some ix, some n => wrote (fxWriteColumn f c ix n)
        | _, _, _ => (s, bad "C16: write_column")
      | Json.str "write_cell_pos", [c, p] =>
        match val? c, ints? p with
        | some c, some p => wrote (sstep f (.writeCellPos c p))
        | _, _ => (s, bad "C16: write_cell_pos")
      | Json.str "write_cell_name", [c, Json.str n, r] =>
        match val? c, jInt? r with
        | some c, some r => wrote (sstep f (.writeCellName c n r))
        | _, _ => (s, bad "C16: write_cell_name")
      | Json.str "set_units", [us] =>
        match listOf? (optOf? str?) us with
        | some us => wrote (sstep f (.setUnits us))
        | none => (s, bad "C16: set_units")
      | Json.str "read_row", [i] =>
        match jInt? i with
        | some i => readOut s (sReadRow f i) rowJ
        | none => (s, bad "C16: read_row")
      | Json.str "read_rows", [ix] =>
        match ints? ix with
        | some ix => readOut s (sReadRows f ix) rowsJ
        | none => (s, bad "C16: read_rows")
      | Json.str "read_columns_idx", [ix, lo, hi] =>
        match ints? ix, optOf? jInt? lo, optOf? jInt? hi with
        | some ix, some lo, some hi => readOut s (sReadColumns f (colsByIndex f.cols.length ix) lo hi) rowsJ
        | _, _, _ => (s, bad "C16: read_columns_idx")
      | Json.str "read_columns_name", [ns, lo, hi] =>
        match listOf? str? ns, optOf? jInt? lo, optOf? jInt? hi with
        | some ns, some lo, some hi => readOut s (sReadColumns f (colsByName f.cols (if ns.length = 1 then .valueError else .keyError) ns) lo hi) rowsJ
        | _, _, _ => (s, bad "C16: read_columns_name")
      | Json.str "read_columns_grouped_idx", [ix, lo, hi] =>
        match ints? ix, optOf? jInt? lo, optOf? jInt? hi with
        | some ix, some lo, some hi => readOut s (sReadColumnsGrouped f (colsByIndex f.cols.length ix) lo hi) rowsJ
        | _, _, _ => (s, bad "C16: read_columns_grouped_idx")
      | Json.str "read_columns_grouped_name", [ns, lo, hi] =>
        match listOf? str? ns, optOf? jInt? lo, optOf? jInt? hi with
        | some ns, some lo, some hi => readOut s (sReadColumnsGrouped f (colsByName f.cols .valueError ns) lo hi) rowsJ
        | _, _, _ => (s, bad "C16: read_columns_grouped_name")
      | Json.str "getitem_name", [Json.str n] => readOut s (sGetField f n) rowJ
      | Json.str "getitem_slice", [lo, hi] =>
        match optOf? jInt? lo, optOf? jInt? hi with
        | some lo, some hi => readOut s (sGetSlice f lo hi) rowsJ
        | _, _ => (s, bad "C16: getitem_slice")
      | Json.str "read_cell_pos", [p] =>
        match ints? p with
        | some p => readOut s (sReadCellPos f p) valJ
        | none => (s, bad "C16: read_cell_pos")
      | Json.str "read_cell_name", [Json.str n, r] =>
        match jInt? r with
        | some r => readOut s (sReadCellName f n r) valJ
        | none => (s, bad "C16: read_cell_name")
      | _, _ => (s, bad "C16: unknown op")
  | _ => (s, bad "C16: not an op")

/-- the frames of the block (`Pure/FrameBlock.lean`), the frame the operations go to, a counter for fresh names -/
structure DSt where
  blk : Blk := ⟨[]⟩
  cur : Option String := none
  count : Nat := 0

def nthFrame (d : DSt) (k : Json) : Option (String × SFrame) :=
  match jInt? k with
  | some i => if i < 0 then none else d.blk.frames[i.toNat]?
  | none => none

def errOrNull : Option Err → Json
  | some e => err e
  | none => ok Json.null

/-- block level: `["frame", k]` selects the k-th created frame, `["recreate", k]` calls `create_data_frame` with the
    name of the k-th frame, `["copy"]` copies the selected frame under a fresh name and selects the copy, a creation
    line adds a frame under a fresh name and selects it (a refused one changes nothing); every other line is a
    `DataFrame` operation on the selected frame -/
def handleBlk (d : DSt) (j : Json) : DSt × Json :=
  match (jArr j).toList with
  | [Json.str "new_block"] => ({}, ok Json.null)      -- every history starts in a block of its own
  | [Json.str "frame", k] =>
    match nthFrame d k with
    | some (n, _) => ({ d with cur := some n }, ok Json.null)
    | none => (d, bad "C16: frame")
  | [Json.str "recreate", k] =>
    match nthFrame d k with
    | some (n, _) =>
      let p := blkCreate d.blk n (sCreated (createDict [("z", .i64)] none))
      ({ d with blk := p.1 }, errOrNull p.2)
    | none => (d, bad "C16: recreate")
  | [Json.str "copy"] =>
    match d.cur with
    | none => (d, bad "C16: no frame")
    | some c =>
      let name := s!"copy{d.count + 1}"
      let p := blkCopy d.blk c name
      match p.2, p.1.find name with
      | none, some s => ({ blk := p.1, cur := some name, count := d.count + 1 }, sDump s)
      | some e, _ => ({ d with count := d.count + 1 }, err e)
      | none, none => (d, bad "C16: copy")
  | Json.str op :: _ =>
    if op.startsWith "create_" then
      let name := s!"df{d.count + 1}"
      match handle none j with
      | (some s, out) =>
        let p := blkCreate d.blk name (.ok s)
        ({ blk := p.1, cur := some name, count := d.count + 1 }, out)
      | (none, out) => ({ d with count := d.count + 1 }, out)
    else
      match d.cur with
      | none => (d, bad "C16: no frame")
      | some c =>
        match d.blk.find c with
        | none => (d, bad "C16: no frame")
        | some s =>
          match handle (some s) j with
          | (some t, out) => ({ d with blk := (blkUpdate d.blk c (fun _ => (t, none))).1 }, out)
          | (none, out) => (d, out)
  | _ => (d, bad "C16: not an op")

def main : IO Unit := loop ({} : DSt) handleBlk

end Driver.C16
