import Driver.Util
open Lean

namespace Driver.C16

/-- stub: replaced when the model of C16 is built -/
def main : IO Unit := pureLoop fun _ => bad "C16: model driver not built yet"

end Driver.C16
