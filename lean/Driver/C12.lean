import Driver.Util
open Lean

namespace Driver.C12

/-- stub: replaced when the model of C12 is built -/
def main : IO Unit := pureLoop fun _ => bad "C12: model driver not built yet"

end Driver.C12
