import Driver.Store
import NixModel.Store.ApiW
open Lean Nix.Store

/-!
Driver of C12: the structural model's line protocol (`Driver.Store`), with the creating calls run
through the *writers* of `Store/ApiW.lean` — the state kept after a refused call is the graph the
writer has reached, so a dump taken after the refusal shows whatever the call left behind.

Additional ops:
  ["create", path, what, name, type, extra, fault]      fault = null | [stage, errclass, variant]
  ["create_mtag", path, name, type, pos, ext]           pos/ext = null | {"ref": path} | {"data": fault}
  ["append_dim", path, kind, withData, fault]
  ["extend", path, cname, [key, …]]                     LinkContainer.extend (append = extend of one item)
  ["dump12"]                                            dump incl. dimension descriptors
-/
namespace Driver.C12
open Driver Driver.Store

def parseErr (s : String) : Option Nix.Err :=
  [Nix.Err.indexError, .outOfBounds, .valueError, .typeError, .duplicateName, .keyError, .runtimeError,
   .invalidUnit, .incompatibleDimensions, .invalidFile, .attributeError, .overflowError, .invalidSlice].find?
    fun e => e.toString == s

def parseFault (j : Json) : Except String (Option Fault) :=
  if isNull j then .ok none
  else match (jArr j).toList with
    | .str st :: .str er :: _ =>       -- a third element names the concrete argument (harness only)
      let stage? : Option Stage := match st with
        | "pre" => some .pre | "entity" => some .entity | "data" => some .data | _ => none
      match stage?, parseErr er with
      | some s, some e => .ok (some { stage := s, err := e })
      | _, _ => .error "fault"
    | _ => .error "fault"

def parseArr (g : Graph) (j : Json) : Except String ArrArg :=
  if isNull j then .ok .absent
  else match j.getObjVal? "ref" with
    | .ok pj => match resolveKey g pj with
      | some k => .ok (.ref k)
      | none => .error "unresolvable path"
    | .error _ => match j.getObjVal? "data" with
      | .ok fj => (parseFault fj).map ArrArg.data
      | .error _ => .error "array argument"

def reached (r : Reached) : Graph × Json :=
  match r.2 with
  | none => (r.1, ok Json.null)
  | some e => (r.1, err e)

def tracked12 : List String := trackedAttrs ++ ["dimension_type"]

/-- `Driver.Store.dumpFrom` with the dimension descriptors visible: an invisible group is one without
links and without any tracked attribute -/
partial def dump12 (g : Graph) : Json :=
  let isEmptyCont (k : Nat) : Bool :=
    match g.node? k with
    | some n => n.kind == .group && n.links.isEmpty && (n.attrs.filter (fun kv => tracked12.contains kv.1)).isEmpty && k != 0
    | none => true
  let rec visit (k : Nat) (seen : List Nat) (out : Array Json) : List Nat × Array Json :=
    if seen.contains k then (seen, out)
    else
      let seen := seen ++ [k]
      let n := (g.node? k).getD {}
      let kids := n.links.filter fun l => !isEmptyCont l.2
      let (seen', out') := kids.foldl (fun (acc : List Nat × Array Json) l => visit l.2 acc.1 acc.2) (seen, out)
      let num (x : Nat) : Nat := (seen'.idxOf x)
      let attrs := (n.attrs.filter fun kv => tracked12.contains kv.1)
      let attrs := attrs.toArray.qsort (fun a b => a.1 < b.1)
      let node := Json.mkObj [
        ("n", Json.num (num k)),
        ("kind", Json.str (match n.kind with | .group => "group" | .dataset => "dataset")),
        ("attrs", Json.mkObj (attrs.toList.map fun kv => (kv.1, Json.str kv.2))),
        ("links", Json.arr (kids.map fun l => Json.arr #[Json.str l.1, Json.num (num l.2)]).toArray)]
      (seen', out'.push node)
  let (_, out) := visit 0 [] #[]
  Json.arr (out.qsort fun a b =>
    match a.getObjVal? "n", b.getObjVal? "n" with
    | .ok x, .ok y => (jInt? x).getD 0 < (jInt? y).getD 0
    | _, _ => false)

def step (g : Graph) (j : Json) : Graph × Json :=
  match (jArr j).toList with
  | [.str "create_block", nm, .str ty] =>
    match parseName g nm with
    | some name => reached (createBlockW g name ty)
    | none => (g, bad "name")
  | [.str "create_section", pj, nm, .str ty] =>
    match parsePath pj, parseName g nm with
    | some p, some name => reached (createSectionW g p name ty)
    | _, _ => (g, bad "args")
  | [.str "create", pj, .str what, nm, .str ty, extra] =>
    match parsePath pj, parseName g nm, optPathKey g extra with
    | some p, some name, .ok ex => reached (createInW g p what name ty ex none)
    | _, _, _ => (g, bad "args")
  | [.str "create", pj, .str what, nm, .str ty, extra, fj] =>
    match parsePath pj, parseName g nm, optPathKey g extra, parseFault fj with
    | some p, some name, .ok ex, .ok f => reached (createInW g p what name ty ex f)
    | _, _, _, _ => (g, bad "args")
  | [.str "create_property", pj, nm] =>
    match parsePath pj, parseName g nm with
    | some p, some name => reached (createPropertyW g p name)
    | _, _ => (g, bad "args")
  | [.str "create_feature", pj, dj, .str lt] =>
    match parsePath pj, optPathKey g dj with
    | some p, .ok d => reached (createFeatureW g p d lt)
    | _, _ => (g, bad "args")
  | [.str "create_mtag", pj, nm, .str ty, posj, extj] =>
    match parsePath pj, parseName g nm, parseArr g posj, parseArr g extj with
    | some p, some name, .ok pos, .ok ext => reached (createMultiTagW g p name ty pos ext)
    | _, _, _, _ => (g, bad "args")
  | [.str "append_dim", pj, .str kd, wd, fj] =>
    match parsePath pj, parseFault fj with
    | some p, .ok f => reached (appendDimW g p kd (jBool wd) f)
    | _, _ => (g, bad "args")
  | [.str "extend", pj, .str cname, ks] =>
    match parsePath pj with
    | none => (g, bad "path")
    | some p =>
      match openCont g p cname, (jArr ks).toList.mapM (parseKey g) with
      | some c, some keys => reached (contExtendW g c keys)
      | none, _ => (g, bad "container")
      | _, none => (g, bad "key")
  | [.str "append", pj, .str cname, kj] =>       -- append(x) through the checks / write of extend([x])
    match parsePath pj with
    | none => (g, bad "path")
    | some p =>
      match openCont g p cname, parseKey g kj with
      | some c, some key => reached (contExtendW g c [key])
      | none, _ => (g, bad "container")
      | _, none => (g, bad "key")
  | [.str "dump12"] => (g, ok (dump12 g))
  | [.str "dump"] => (g, ok (dump12 g))      -- the shared generator's dump: dimension descriptors visible here
  | _ => Driver.Store.step g j

def main : IO Unit := loop ({} : Graph) step

end Driver.C12
