import Driver.Store
import NixModel.Store.ApiW
import NixModel.Generated.WriteOrder
import NixModel.Generated.LinkOrder
import NixModel.Generated.CopyOrder
import NixModel.Generated.PropCreateOrder
import NixModel.Generated.RoleOrder
import NixModel.Generated.AttrOrder
import NixModel.Generated.TextVecOrder
open Lean Nix.Store

/-!
Driver of C12: the structural model's line protocol (`Driver.Store`), with the creating calls run
through the *writers* of `Store/ApiW.lean` — the state kept after a refused call is the graph the
writer has reached, so a dump taken after the refusal shows whatever the call left behind.

Additional ops:
  ["create", path, what, name, type, extra, fault]      fault = null | [stage, errclass, variant]
  ["create_mtag", path, name, type, pos, ext]           pos/ext = null | {"ref": path} | {"data": fault}
  ["append_dim", path, kind, withData, fault]
  ["extend", path, cname, [key, …]]                     LinkContainer.extend (append = extend of one item)
  ["dump12"]                                            dump incl. dimension descriptors
  ["vec_set", setter, stored, stamp, now, arg]          the vector setters of Pure/VecWrite.lean run on the step lists
        of Generated/WriteOrder.lean (stateless): setter = "Tag.position" | "Tag.extent" |
        "DataArray.polynom_coefficients" | "Property.values"; stored = null | ["n/d", …]; arg = null |
        {"scalar": elem} | {"unsized": elem} | {"seq": [isArray, [elem, …]]} | {"nested": [isArray, rank, [elem, …]]};
        elem = ["n/d", typeOk, convOk, h5Ok]; answer {"ds": null | [rank, ["n/d", …]], "stamp": n, "err": null | class}
  ["link_run", function, [hasLen, iterable, hasCount, isSeq], [[plain, minusOne, neg, cmpOk, storable], …],
        [colIsInt, colVal], targetRank, targetCols, state (, otherFile)]   the link-building functions of Pure/LinkWrite.lean run on
        the step lists of Generated/LinkOrder.lean (stateless): function = a name of `LinkOrder.all`; state = null (the
        descriptor does not exist yet) | [ticks, linked]; answer {"err": null | class, "dim": null | {"ticks": b,
        "link": null | {"fresh": b, "complete": b, "index": null | n, "column": null | i}}, "ndims": n, "touched": b}
  ["copy_run", function, kindOk, [truthOk, memberOk, taken, storable], [keepBoolOk, keepValue], [childrenBoolOk,
        childrenValue]]       the copying functions of Pure/CopyWrite.lean run on the step lists of Generated/CopyOrder.lean
        from a container holding one item; answer {"err": null | class, "items": n, "last": null | {"fresh": b,
        "named": b, "props": b}}
  ["propcreate_run", [memberOk, taken, nameValid, valuesOk, dtypeOk, valuesStorable]]       Section.create_property of
        Pure/PropCreate.lean run on Generated/PropCreateOrder.lean from a section holding one property (named like the
        new one iff taken); answer {"err": null | class, "items": n, "last": null | {"named": b, "id": b, "stamps": b, "values": b}}
  ["role_run", setter, kind, place, idFound, ownerTagged, linked, targetFrame]       the role-link setters of
        Pure/RoleWrite.lean run on Generated/RoleOrder.lean: setter = a name of `RoleOrder.all` | "Dimension.link_data_array"
        | "Dimension.link_data_frame"; kind = "none" | "array" | "frame" | "section" | "other"; place = "member" |
        "otherBlock" | "otherFile" | "deleted"; linked: the owner has the link; targetFrame = null | bool; answer
        {"err": null | class, "link": null | "old" | "new", "target_frame": null | b, "stamped": b}
  ["attr_run", setter, [isNone, typeOk, normOk, storesNone, isText, textStorable, hasH5Type], present]       the
        attribute setters of Pure/AttrWrite.lean run on Generated/AttrOrder.lean: setter = a name of `AttrOrder.all`;
        present: the attribute has a value; answer {"err": null | class, "attr": null | "old" | "new", "stamped": b}
  ["textvec_run", setter, [truthOk, falsy, listLike, iterable, elemsOk, arrayOk, countOk, elemsStorable, linked], present]
        the text-vector setters of Pure/TextVecWrite.lean run on Generated/TextVecOrder.lean: setter = a name of
        `TextVecOrder.all`; answer {"err": null | class, "vec": null | "old" | "new" | "resized", "stamped": b}
-/
namespace Driver.C12
open Driver Driver.Store

def parseErr (s : String) : Option Nix.Err :=
  [Nix.Err.indexError, .outOfBounds, .valueError, .typeError, .duplicateName, .keyError, .runtimeError,
   .invalidUnit, .incompatibleDimensions, .invalidFile, .attributeError, .overflowError, .invalidSlice].find?
    fun e => e.toString == s

def parseFault (j : Json) : Except String (Option Fault) :=
  if isNull j then .ok none
  else match (jArr j).toList with
    | .str st :: .str er :: _ =>       -- a third element names the concrete argument (harness only)
      let stage? : Option Stage := match st with
        | "pre" => some .pre | "entity" => some .entity | "data" => some .data | _ => none
      match stage?, parseErr er with
      | some s, some e => .ok (some { stage := s, err := e })
      | _, _ => .error "fault"
    | _ => .error "fault"

def parseArr (g : Graph) (j : Json) : Except String ArrArg :=
  if isNull j then .ok .absent
  else match j.getObjVal? "ref" with
    | .ok pj => match resolveKey g pj with
      | some k => .ok (.ref k)
      | none => .error "unresolvable path"
    | .error _ => match j.getObjVal? "data" with
      | .ok fj => (parseFault fj).map ArrArg.data
      | .error _ => .error "array argument"

def reached (r : Reached) : Graph × Json :=
  match r.2 with
  | none => (r.1, ok Json.null)
  | some e => (r.1, err e)

def tracked12 : List String := trackedAttrs ++ ["dimension_type"]

/-- `Driver.Store.dumpFrom` with the dimension descriptors visible: an invisible group is one without
links and without any tracked attribute -/
partial def dump12 (g : Graph) : Json :=
  let isEmptyCont (k : Nat) : Bool :=
    match g.node? k with
    | some n => n.kind == .group && n.links.isEmpty && (n.attrs.filter (fun kv => tracked12.contains kv.1)).isEmpty && k != 0
    | none => true
  let rec visit (k : Nat) (seen : List Nat) (out : Array Json) : List Nat × Array Json :=
    if seen.contains k then (seen, out)
    else
      let seen := seen ++ [k]
      let n := (g.node? k).getD {}
      let kids := n.links.filter fun l => !isEmptyCont l.2
      let (seen', out') := kids.foldl (fun (acc : List Nat × Array Json) l => visit l.2 acc.1 acc.2) (seen, out)
      let num (x : Nat) : Nat := (seen'.idxOf x)
      let attrs := (n.attrs.filter fun kv => tracked12.contains kv.1)
      let attrs := attrs.toArray.qsort (fun a b => a.1 < b.1)
      let node := Json.mkObj [
        ("n", Json.num (num k)),
        ("kind", Json.str (match n.kind with | .group => "group" | .dataset => "dataset")),
        ("attrs", Json.mkObj (attrs.toList.map fun kv => (kv.1, Json.str kv.2))),
        ("links", Json.arr (kids.map fun l => Json.arr #[Json.str l.1, Json.num (num l.2)]).toArray)]
      (seen', out'.push node)
  let (_, out) := visit 0 [] #[]
  Json.arr (out.qsort fun a b =>
    match a.getObjVal? "n", b.getObjVal? "n" with
    | .ok x, .ok y => (jInt? x).getD 0 < (jInt? y).getD 0
    | _, _ => false)

/-! ### the vector setters (stateless) -/
open Nix.VecWrite in
def parseRat (s : String) : Option Rat :=
  match s.splitOn "/" with
  | [n] => n.toInt?.map fun i => (i : Rat)
  | [n, d] => match n.toInt?, d.toNat? with
    | some i, some k => if k == 0 then none else some (mkRat i k)
    | _, _ => none
  | _ => none

open Nix.VecWrite in
def parseElem (j : Json) : Option Elem :=
  match (jArr j).toList with
  | [.str v, t, c, h] => (parseRat v).map fun q => { val := q, typeOk := jBool t, convOk := jBool c, h5Ok := jBool h }
  | _ => none

open Nix.VecWrite in
def parseVArg (j : Json) : Option Arg :=
  if isNull j then some .none
  else match j.getObjVal? "scalar" with
    | .ok e => (parseElem e).map Arg.scalar
    | .error _ => match j.getObjVal? "unsized" with
      | .ok e => (parseElem e).map Arg.unsized
      | .error _ => match j.getObjVal? "seq" with
        | .ok sj => match (jArr sj).toList with
          | [a, es] => ((jArr es).toList.mapM parseElem).map fun l => Arg.seq (jBool a) l
          | _ => none
        | .error _ => match j.getObjVal? "nested" with
          | .ok sj => match (jArr sj).toList with
            | [a, r, es] => match jInt? r, (jArr es).toList.mapM parseElem with
              | some rk, some l => some (Arg.nested (jBool a) rk.toNat l)
              | _, _ => none
            | _ => none
          | .error _ => none

open Nix.VecWrite Nix.Generated.WriteOrder in
def vecSet (name : String) (stored : Json) (stamp now : Json) (arg : Json) : Json :=
  let setter? : Option Setter :=
    if name == "Property.values" then some propertyValues else (floatSetters.find? (·.1 == name)).map (·.2)
  let ds? : Option (Option Dataset) :=
    if isNull stored then some none
    else ((jArr stored).toList.mapM fun v => parseRat (jStr v)).map fun vs => some { rank := 1, vals := vs }
  match setter?, ds?, jInt? stamp, jInt? now, parseVArg arg with
  | some s, some ds, some st, some nw, some x =>
    let r := runSetter writeDataSteps s { ds := ds, stamp := st.toNat } nw.toNat x
    ok (Json.mkObj [
      ("ds", match r.1.ds with
        | none => Json.null
        | some d => Json.arr #[Json.num d.rank, Json.arr (d.vals.map fun q => Json.str (ratStr q)).toArray]),
      ("stamp", Json.num r.1.stamp),
      ("err", match r.2 with | none => Json.null | some e => Json.str e.toString)])
  | _, _, _, _, _ => bad "vec_set"

open Nix.VecWrite Nix.Generated.WriteOrder in
/-- `["vec_ticks", stored, linked, arg]`: the `RangeDimension.ticks` setter on `rangeTicks` -/
def vecTicks (stored : Json) (linked : Json) (arg : Json) : Json :=
  let ds? : Option (Option Dataset) :=
    if isNull stored then some none
    else ((jArr stored).toList.mapM fun v => parseRat (jStr v)).map fun vs => some { rank := 1, vals := vs }
  match ds?, parseVArg arg with
  | some ds, some x =>
    let r := runWith writeDataSteps rangeTicks { x := x, now := 9, file := { ds := ds, stamp := 5, link := jBool linked } }
    ok (Json.mkObj [
      ("ds", match r.1.file.ds with
        | none => Json.null
        | some d => Json.arr #[Json.num d.rank, Json.arr (d.vals.map fun q => Json.str (ratStr q)).toArray]),
      ("link", Json.bool r.1.file.link),
      ("stamp", Json.num r.1.file.stamp),
      ("err", match r.2 with | none => Json.null | some e => Json.str e.toString)])
  | _, _ => bad "vec_ticks"

open Nix.LinkWrite in
def parseEntry (j : Json) : Option Entry :=
  match (jArr j).toList with
  | [p, m, n, c, s] => some { plain := jBool p, minusOne := jBool m, neg := jBool n, cmpOk := jBool c, storable := jBool s }
  | _ => none

open Nix.LinkWrite Nix.Generated.LinkOrder in
def linkRun (name : String) (caps entries col rank cols state : Json) (otherFile : Bool := false) : Json :=
  let steps? := (Nix.Generated.LinkOrder.all.find? (·.1 == name)).map (·.2)
  let file? : Option File :=
    if isNull state then some { dim := none, ndims := 1, stamp := 1 }
    else match (jArr state).toList with
      | [t, l] =>
        let old : Link := ⟨1, some true, some 3, some [], none, some 1, some 1⟩
        some ⟨some ⟨jBool t, if jBool l then some old else none⟩, 2, 1⟩
      | _ => none
  match steps?, file?, (jArr caps).toList, (jArr entries).toList.mapM parseEntry, (jArr col).toList, jInt? rank, jInt? cols with
  | some steps, some f, [a, b, c, d], some es, [ci, cv], some rk, some nc =>
    let call : Call := ⟨⟨jBool a, jBool b, jBool c, jBool d, es⟩, ⟨jBool ci, (jInt? cv).getD 0⟩, 7, rk.toNat, nc.toNat, 5, 9, otherFile⟩
    let r := run call steps f
    ok (Json.mkObj [
      ("err", match r.2 with | none => Json.null | some e => Json.str e.toString),
      ("dim", match r.1.dim with
        | none => Json.null
        | some dm => Json.mkObj [("ticks", Json.bool dm.ticks),
            ("link", match dm.link with
              | none => Json.null
              | some l => Json.mkObj [
                  ("fresh", Json.bool (l.id == 9)),
                  ("complete", Json.bool (l.isArray.isSome && l.target.isSome && l.created.isSome && l.updated.isSome &&
                                          (l.index.isSome || l.column.isSome))),
                  ("index", match l.index with | none => Json.null | some ix => Json.num ix.length),
                  ("column", match l.column with | none => Json.null | some v => Json.num v)])]),
      ("ndims", Json.num r.1.ndims),
      ("touched", Json.bool (r.1.stamp != 1))])
  | _, _, _, _, _, _, _ => bad "link_run"

open Nix.Guarded Nix.CopyWrite in
def copyRun (name : String) (kind nm keep children : Json) : Json :=
  match (Nix.Generated.CopyOrder.all.find? (·.1 == name)).map (·.2), (jArr nm).toList, (jArr keep).toList,
        (jArr children).toList with
  | some steps, [t, m, tk, st], [kb, kv], [cb, cv] =>
    let call : Call := ⟨jBool kind, ⟨jBool t, jBool m, jBool tk, jBool st, if jBool tk then 1 else 4⟩, ⟨jBool kb, jBool kv⟩,
                        ⟨jBool cb, jBool cv⟩, 10, 11⟩
    let r := Nix.Guarded.run Nix.CopyWrite.sys call steps ⟨true, [⟨1, 2, true, true⟩]⟩
    ok (Json.mkObj [
      ("err", match r.2 with | none => Json.null | some e => Json.str e.toString),
      ("items", Json.num r.1.items.length),
      ("last", match r.1.items.reverse with
        | i :: _ :: _ => Json.mkObj [("fresh", Json.bool (i.id == 11)), ("named", Json.bool i.named), ("props", Json.bool i.props)]
        | _ => Json.null)])
  | _, _, _, _ => bad "copy_run"

open Nix.Guarded Nix.PropCreate in
def propCreateRun (flags : Json) : Json :=
  match (jArr flags).toList with
  | [m, t, n, v, d, st] =>
    let call : Call := ⟨jBool m, jBool t, jBool n, jBool v, jBool d, jBool st, 4, 5⟩
    let old : Item := ⟨if jBool t then 4 else 1, true, true, some 1, some 1, true⟩
    let r := runFn Nix.PropCreate.sys call Nix.Generated.PropCreateOrder.createProperty ⟨true, [old]⟩
    ok (Json.mkObj [
      ("err", match r.2 with | none => Json.null | some e => Json.str e.toString),
      ("items", Json.num r.1.items.length),
      ("old_kept", Json.bool (r.1.items.head? == some old)),
      ("last", match r.1.items.reverse with
        | i :: _ :: _ => Json.mkObj [("named", Json.bool i.named), ("id", Json.bool i.hasId),
            ("stamps", Json.bool (i.created.isSome && i.updated.isSome)), ("values", Json.bool i.values)]
        | _ => Json.null)])
  | _ => bad "propcreate_run"

open Nix.Guarded Nix.RoleWrite in
def roleRun (name kind place : String) (idFound tagged linked tframe : Json) : Json :=
  let k : Option Kind := match kind with
    | "none" => some .none | "array" => some .array | "frame" => some .frame | "section" => some .section
    | "other" => some .other | _ => none
  let pl : Option Place := match place with
    | "member" => some .member | "otherBlock" => some .otherBlock | "otherFile" => some .otherFile
    | "deleted" => some .deleted | _ => none
  let steps : Option (Kind → List RStep) :=
    if name == "Dimension.link_data_array" then some fun _ => Nix.Generated.RoleOrder.dimensionLinkDataArray
    else if name == "Dimension.link_data_frame" then some fun _ => Nix.Generated.RoleOrder.dimensionLinkDataFrame
    else (Nix.Generated.RoleOrder.all.find? (·.1 == name)).map (·.2)
  match k, pl, steps with
  | some k, some pl, some st =>
    let a : Arg := ⟨k, pl, jBool idFound, jBool tagged, 7, 5⟩
    let f : File := ⟨if jBool linked then some 3 else none, match tframe with | .null => none | b => some (jBool b), 1⟩
    let r := run Nix.RoleWrite.sys a (st k) f
    ok (Json.mkObj [
      ("err", match r.2 with | none => Json.null | some e => Json.str e.toString),
      ("link", match r.1.link with | none => Json.null | some t => Json.str (if t == 3 then "old" else "new")),
      ("target_frame", match r.1.targetFrame with | none => Json.null | some b => Json.bool b),
      ("stamped", Json.bool (r.1.stamp != 1))])
  | _, _, _ => bad "role_run"

open Nix.Guarded Nix.AttrWrite in
def attrRun (name : String) (flags present : Json) : Json :=
  match (Nix.Generated.AttrOrder.all.find? (·.1 == name)).map (·.2), (jArr flags).toList with
  | some st, [n, t, nm, sn, tx, ts, ht] =>
    let a : Arg := ⟨jBool n, jBool t, jBool nm, jBool sn, jBool tx, jBool ts, jBool ht, 7, 5⟩
    let r := Nix.AttrWrite.runSetter st a ⟨if jBool present then some 3 else none, 1⟩
    ok (Json.mkObj [
      ("err", match r.2 with | none => Json.null | some e => Json.str e.toString),
      ("attr", match r.1.attr with | none => Json.null | some t => Json.str (if t == 3 then "old" else "new")),
      ("stamped", Json.bool (r.1.stamp != 1))])
  | _, _ => bad "attr_run"

open Nix.Guarded Nix.TextVecWrite in
def textVecRun (name : String) (flags present : Json) : Json :=
  match (Nix.Generated.TextVecOrder.all.find? (·.1 == name)).map (·.2), (jArr flags).toList with
  | some st, [t, fa, ll, it, eo, ao, co, es, lk] =>
    let a : Arg := ⟨jBool t, jBool fa, jBool ll, jBool it, jBool eo, jBool ao, jBool co, jBool es, jBool lk, 7, 5⟩
    let r := Nix.TextVecWrite.runSetter st a ⟨if jBool present then some 3 else none, 1⟩
    ok (Json.mkObj [
      ("err", match r.2 with | none => Json.null | some e => Json.str e.toString),
      ("vec", match r.1.vec with
        | none => Json.null
        | some t => Json.str (if t == 3 then "old" else if t == 0 then "resized" else "new")),
      ("stamped", Json.bool (r.1.stamp != 1))])
  | _, _ => bad "textvec_run"

def step (g : Graph) (j : Json) : Graph × Json :=
  match (jArr j).toList with
  | [.str "textvec_run", .str name, flags, present] => (g, textVecRun name flags present)
  | [.str "attr_run", .str name, flags, present] => (g, attrRun name flags present)
  | [.str "role_run", .str name, .str kind, .str place, idf, tg, linked, tf] => (g, roleRun name kind place idf tg linked tf)
  | [.str "propcreate_run", flags] => (g, propCreateRun flags)
  | [.str "copy_run", .str name, kind, nm, keep, children] => (g, copyRun name kind nm keep children)
  | [.str "link_run", .str name, caps, entries, col, rank, cols, state] => (g, linkRun name caps entries col rank cols state)
  | [.str "link_run", .str name, caps, entries, col, rank, cols, state, other] =>
    (g, linkRun name caps entries col rank cols state (jBool other))
  | [.str "vec_set", .str name, stored, stamp, now, arg] => (g, vecSet name stored stamp now arg)
  | [.str "vec_ticks", stored, linked, arg] => (g, vecTicks stored linked arg)
  | [.str "create_block", nm, .str ty] =>
    match parseName g nm with
    | some name => reached (createBlockW g name ty)
    | none => (g, bad "name")
  | [.str "create_section", pj, nm, .str ty] =>
    match parsePath pj, parseName g nm with
    | some p, some name => reached (createSectionW g p name ty)
    | _, _ => (g, bad "args")
  | [.str "create", pj, .str what, nm, .str ty, extra] =>
    match parsePath pj, parseName g nm, optPathKey g extra with
    | some p, some name, .ok ex => reached (createInW g p what name ty ex none)
    | _, _, _ => (g, bad "args")
  | [.str "create", pj, .str what, nm, .str ty, extra, fj] =>
    match parsePath pj, parseName g nm, optPathKey g extra, parseFault fj with
    | some p, some name, .ok ex, .ok f => reached (createInW g p what name ty ex f)
    | _, _, _, _ => (g, bad "args")
  | [.str "create_property", pj, nm] =>
    match parsePath pj, parseName g nm with
    | some p, some name => reached (createPropertyW g p name)
    | _, _ => (g, bad "args")
  | [.str "create_feature", pj, dj, .str lt] =>
    match parsePath pj, optPathKey g dj with
    | some p, .ok d => reached (createFeatureW g p d lt)
    | _, _ => (g, bad "args")
  | [.str "create_mtag", pj, nm, .str ty, posj, extj] =>
    match parsePath pj, parseName g nm, parseArr g posj, parseArr g extj with
    | some p, some name, .ok pos, .ok ext => reached (createMultiTagW g p name ty pos ext)
    | _, _, _, _ => (g, bad "args")
  | [.str "append_dim", pj, .str kd, wd, fj] =>
    match parsePath pj, parseFault fj with
    | some p, .ok f => reached (appendDimW g p kd (jBool wd) f)
    | _, _ => (g, bad "args")
  | [.str "extend", pj, .str cname, ks] =>
    match parsePath pj with
    | none => (g, bad "path")
    | some p =>
      match openCont g p cname, (jArr ks).toList.mapM (parseKey g) with
      | some c, some keys => reached (contExtendW g c keys)
      | none, _ => (g, bad "container")
      | _, none => (g, bad "key")
  | [.str "append", pj, .str cname, kj] =>       -- append(x) through the checks / write of extend([x])
    match parsePath pj with
    | none => (g, bad "path")
    | some p =>
      match openCont g p cname, parseKey g kj with
      | some c, some key => reached (contExtendW g c [key])
      | none, _ => (g, bad "container")
      | _, none => (g, bad "key")
  | [.str "dump12"] => (g, ok (dump12 g))
  | [.str "dump"] => (g, ok (dump12 g))      -- the shared generator's dump: dimension descriptors visible here
  | _ => Driver.Store.step g j

def main : IO Unit := loop ({} : Graph) step

end Driver.C12
