import Driver.Util
import NixModel.Pure.Version
open Lean Nix.Version Nix.Gen.Format

/-!
Line protocol of the C11 model driver (one JSON array per line, one JSON value back):

* `["is_uuid", s|null]`, `["can_write", ver|null]`, `["can_read", ver|null]`, `["map_mode", m]`,
  `["tuple_ge", a, b]`, `["check", mode, header]` — the pure functions; `["create_header", header, freshId]` —
  `File._create_header()` on a file whose root carries the given attributes;
* `["hist", disk|null, [event…]]` — a history on one path:
  events `["open", mode, freshId]`, `["get", key]`, `["keys", prefix]`, `["header"]`,
  `["put", key, val]`, `["del", key]`, `["api", name]` (a mutator whose effect is not modelled:
  answered only in a read-only session, where the effect is irrelevant), `["close"]`, `["remove"]`;
  answer `{"ok": {"outs": […], "disk": disk|null}}`.

header = `{"format": s|null, "version": [int…]|null, "id": s|null}`;
disk = `{"header": …, "data": b, "meta": b, "created": b, "updated": b, "content": [[key, val]…]}` (an HDF5
file), `{"blob": tag, "empty": b}` (a file libhdf5 cannot open), `{"dir": tag}` (a directory), `null` (missing).
An open event with mode `null` is the open without a mode argument (`openDefault`).
-/
namespace Driver.C11

def s2j (s : Str) : Json := Json.str (String.ofList s)
def os2j : Option Str → Json | none => Json.null | some s => s2j s
def key2j (k : Key) : Json := Json.arr (k.map s2j).toArray

def j2str? : Json → Option Str | .str s => some s.toList | _ => none
def j2ostr? : Json → Option (Option Str)
  | .null => some none
  | .str s => some (some s.toList)
  | _ => none
def j2ints? (j : Json) : Option (List Int) :=
  match j with
  | .arr a => a.toList.mapM jInt?
  | _ => none
def j2oints? (j : Json) : Option (Option (List Int)) :=
  match j with
  | .null => some none
  | _ => (j2ints? j).map some
def j2key? (j : Json) : Option Key :=
  match j with
  | .arr a => a.toList.mapM j2str?
  | _ => none
def j2bool? : Json → Option Bool | .bool b => some b | _ => none

def field (j : Json) (k : String) : Json := (j.getObjVal? k).toOption.getD Json.null

def j2header? (j : Json) : Option Header := do
  let f ← j2ostr? (field j "format")
  let v ← j2oints? (field j "version")
  let i ← j2ostr? (field j "id")
  pure { fmt := f, version := v, id := i }

def j2content? (j : Json) : Option Content :=
  match j with
  | .arr a => a.toList.mapM fun kv =>
      match kv with
      | .arr #[k, v] => do pure ((← j2key? k), (← j2str? v))
      | _ => none
  | _ => none

def j2disk? (j : Json) : Option Node :=
  match j with
  | .null => some .missing
  | _ =>
    match field j "blob", field j "dir" with
    | .str t, _ => do
      let e ← j2bool? (field j "empty")
      pure (.blob t.toList e)
    | _, .str t => some (.dir t.toList)
    | _, _ => do
    let h ← j2header? (field j "header")
    let a ← j2bool? (field j "data")
    let b ← j2bool? (field j "meta")
    let c ← j2bool? (field j "created")
    let d ← j2bool? (field j "updated")
    let ct ← j2content? (field j "content")
    pure (.hdf { header := h, hasData := a, hasMeta := b, hasCreated := c, hasUpdated := d, content := ct })

def header2j (h : Header) : Json :=
  Json.mkObj [("format", os2j h.fmt),
              ("version", match h.version with
                          | none => Json.null
                          | some v => Json.arr (v.map (fun (i : Int) => toJson i)).toArray),
              ("id", os2j h.id)]

def disk2j : Node → Json
  | .missing => Json.null
  | .blob t e => Json.mkObj [("blob", s2j t), ("empty", e)]
  | .dir t => Json.mkObj [("dir", s2j t)]
  | .hdf d => Json.mkObj [("header", header2j d.header), ("data", d.hasData), ("meta", d.hasMeta),
      ("created", d.hasCreated), ("updated", d.hasUpdated),
      ("content", Json.arr (d.content.map fun kv => Json.arr #[key2j kv.1, s2j kv.2]).toArray)]

def refusal2j : Refusal → Json
  | .err e => Json.str e.toString
  | .h5ReadOnly => Json.str "H5ReadOnly"
  | .osError => Json.str "OSError"

def out2j : Out → Json
  | .val v => Json.mkObj [("val", os2j v)]
  | .keys ks => Json.mkObj [("keys", Json.arr (ks.map key2j).toArray)]
  | .header h => Json.mkObj [("header", header2j h)]
  | .done => Json.mkObj [("done", true)]
  | .refused r => Json.mkObj [("refused", refusal2j r)]

def evout2j : EvOut → Json
  | .opened s => Json.mkObj [("opened", Json.mkObj [("mode", s2j s.mode), ("writable", s.writable)])]
  | .refused r => Json.mkObj [("refused", refusal2j r)]
  | .out o => out2j o
  | .closed => Json.mkObj [("closed", true)]
  | .ignored => Json.mkObj [("ignored", true)]

/-- an event, or a reason why the line cannot be answered by the model -/
def j2ev (w : World) (j : Json) : Except String Ev :=
  match jArr j |>.toList with
  | [Json.str "open", Json.str m, Json.str fid] => .ok (.open m.toList fid.toList)
  | [Json.str "open", Json.null, Json.str fid] => .ok (.open defaultModeOpen fid.toList)
  | [Json.str "get", k] => match j2key? k with | some k => .ok (.op (.read (.get k))) | none => .error "key"
  | [Json.str "keys", k] => match j2key? k with | some k => .ok (.op (.read (.keys k))) | none => .error "key"
  | [Json.str "header"] => .ok (.op (.read .header))
  | [Json.str "put", k, Json.str v] =>
    match j2key? k with | some k => .ok (.op (.mutate (fun c => .ok (putKey k v.toList c)))) | none => .error "key"
  | [Json.str "del", k] => match j2key? k with | some k => .ok (.op (.mutate (delKey k))) | none => .error "key"
  | [Json.str "api", Json.str _] =>
    -- effect not modelled: only answerable where `step` ignores it (theorem `C11_readonly_frame`)
    match w.sess with
    | some s => if s.acc = .rdonly then .ok (.op (.mutate (fun c => .ok c)))
                else .error "api mutator in a writable session: effect not modelled"
    | none => .ok (.op (.mutate (fun c => .ok c)))
  | [Json.str "close"] => .ok .close
  | [Json.str "remove"] => .ok .remove
  | _ => .error "unknown event"

def runHist (w : World) : List Json → Except String (World × List Json)
  | [] => .ok (w, [])
  | j :: js =>
    match j2ev w j with
    | .error e => .error e
    | .ok ev =>
      let (w1, o) := evStep w ev
      match runHist w1 js with
      | .error e => .error e
      | .ok (w2, os) => .ok (w2, evout2j o :: os)

def exb (r : Except Nix.Err Bool) : Json :=
  match r with | .ok b => ok (Json.bool b) | .error e => err e

def handle (j : Json) : Json :=
  match jArr j |>.toList with
  | [Json.str "is_uuid", x] =>
    match j2ostr? x with | some s => ok (Json.bool (isUuid s)) | none => bad "C11: is_uuid argument"
  | [Json.str "can_write", v] =>
    match j2oints? v with
    | some v => exb (canWrite { fmt := none, version := v, id := none })
    | none => bad "C11: version"
  | [Json.str "can_read", v] =>
    match j2oints? v with
    | some v => exb (canRead { fmt := none, version := v, id := none })
    | none => bad "C11: version"
  | [Json.str "map_mode", Json.str m] =>
    match mapFileMode m.toList with
    | .ok .rdonly => ok (Json.str "ACC_RDONLY")
    | .ok .rdwr => ok (Json.str "ACC_RDWR")
    | .ok .trunc => ok (Json.str "ACC_TRUNC")
    | .error e => err e
  | [Json.str "tuple_ge", a, b] =>
    match j2ints? a, j2ints? b with
    | some a, some b => ok (Json.bool (cmpTuple .ge a b))
    | _, _ => bad "C11: tuple"
  | [Json.str "check", Json.str m, h] =>
    match j2header? h with
    | some h => (match checkHeader m.toList h with | .ok () => ok Json.null | .error e => err e)
    | none => bad "C11: header"
  | [Json.str "create_header", h, Json.str fid] =>
    match j2header? h with
    | some h => (match createHeader h fid.toList with | .ok h' => ok (header2j h') | .error e => err e)
    | none => bad "C11: header"
  | [Json.str "hist", d, Json.arr evs] =>
    match j2disk? d with
    | none => bad "C11: disk"
    | some d0 =>
      match runHist { node := d0, sess := none } evs.toList with
      | .error e => bad ("C11: " ++ e)
      | .ok (w, outs) => ok (Json.mkObj [("outs", Json.arr outs.toArray), ("disk", disk2j w.node)])
  | _ => bad "C11: unknown op"

def main : IO Unit := pureLoop handle

end Driver.C11
