import Driver.Util
open Lean

namespace Driver.C11

/-- stub: replaced when the model of C11 is built -/
def main : IO Unit := pureLoop fun _ => bad "C11: model driver not built yet"

end Driver.C11
