import Driver.Util
open Lean

namespace Driver.C06

/-- stub: replaced when the model of C06 is built -/
def main : IO Unit := pureLoop fun _ => bad "C06: model driver not built yet"

end Driver.C06
