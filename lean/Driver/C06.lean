import Driver.Util
import NixModel.Pure.DataView
import NixModel.Pure.ViewData
open Lean Nix Nix.Py Nix.NdIndex Nix.DataView Nix.ViewData

/-!
Line protocol of C06 (one JSON array per line):

* index component: integer | `{"s":[start,stop,step]}` (entries integer or null) | `"..."`;
  an index expression is a JSON array (Python tuple) or a single component (passed unwrapped
  to `__getitem__`; both h5py and `DataView` wrap it into a 1-tuple);
* `["indices",[a,b,c],len]`, `["range",lo,hi,step]`          — CPython stand-ins;
* `["np",shape,ix]`                                          — NumPy stand-in (`npSelect`);
* `["da_read",shape,ix]`, `["da_write",shape,ix]`            — `DataArray.__getitem__/__setitem__`;
* `["mkview",shape,slices]` (slices null | [null | [a,b]])   — `DataView(da, slices)`;
* `["view",shape,positions,extents|null]`                    — `get_slice` (index mode);
* `["view_read",shape,positions,extents,ix|null]`, `["view_write",…]` — through the view
  (`ix = null` is `sl=None`: `_read_data()` / `write_direct`);
* `["view_data",shape,dims,positions,extents|null]`, `["view_data_read",shape,dims,positions,extents,ix|null]`
  — `get_slice(…, DataSliceMode.Data)`; `dims` = list of `["sampled",offset|null,interval]` |
  `["range",[ticks]]` | `["set"]`; numbers are integers or `"num/den"` strings (exact rationals).

Selections are printed as `{"shape":[…],"idx":[C-order offsets in the parent, in result order]}`.
-/
namespace Driver.C06

def optInt? (j : Json) : Option (Option Int) :=
  if isNull j then some none else (jInt? j).map some

def slice? (j : Json) : Option PySlice :=
  match jArr j |>.toList with
  | [a, b, c] => do
    let a ← optInt? a
    let b ← optInt? b
    let c ← optInt? c
    pure ⟨a, b, c⟩
  | _ => none

def ix1? (j : Json) : Option Ix :=
  match j with
  | .str "..." => some .ellipsis
  | .obj _ =>
    match j.getObjVal? "s" with
    | .ok s => (slice? s).map Ix.slice
    | _ => none
  | _ => (jInt? j).map Ix.int

def ix? (j : Json) : Option (List Ix) :=
  match j with
  | .arr a => a.toList.mapM ix1?
  | _ => (ix1? j).map fun i => [i]

def ints? (j : Json) : Option (List Int) :=
  match j with
  | .arr a => a.toList.mapM jInt?
  | _ => none

def nats? (j : Json) : Option (List Nat) := do
  let l ← ints? j
  if l.all (fun i => decide (i ≥ 0)) then pure (l.map Int.toNat) else none

def jInts (l : List Int) : Json := Json.arr (l.map fun i => Json.num (JsonNumber.fromInt i)).toArray
def jNats (l : List Nat) : Json := jInts (l.map Int.ofNat)

def selJson (parent : List Nat) (shape : List Nat) (sel : List AxisSel) : Json :=
  Json.mkObj [("shape", jNats shape), ("idx", jInts ((selIndices sel).map (flatIndex parent)))]

def outSel (parent : List Nat) (rank0 : Bool) : Except Err (List AxisSel) → Json
  | .ok sel => ok (selJson parent (if rank0 then resultShape sel else selShape sel) sel)
  | .error e => err e

def outRead (parent : List Nat) : Except Err Read → Json
  | .ok .empty => ok (Json.mkObj [("shape", jNats [0]), ("idx", jInts [])])
  | .ok (.sel sel) => ok (selJson parent (resultShape sel) sel)
  | .error e => err e

def viewJson (v : View) : Json :=
  Json.mkObj [("valid", Json.bool v.valid),
    ("shape", match v.shape with | some s => jInts s | none => Json.null),
    ("window", if v.valid then Json.arr (v.window.map fun w => jInts [w.1, w.2]).toArray else Json.null)]

def win? (j : Json) : Option (Option Win) :=
  if isNull j then some none else
  match ints? j with
  | some [a, b] => some (some (a, b))
  | _ => none

def slices? (j : Json) : Option (Option (List (Option Win))) :=
  if isNull j then some none else
  match j with
  | .arr a => (a.toList.mapM win?).map some
  | _ => none

def optInts? (j : Json) : Option (Option (List Int)) :=
  if isNull j then some none else (ints? j).map some

def optIx? (j : Json) : Option (Option (List Ix)) :=
  if isNull j then some none else (ix? j).map some

def parseRat (s : String) : Option Rat :=
  match s.splitOn "/" with
  | [n, d] =>
    match n.toInt?, d.toNat? with
    | some n, some d => if d = 0 then none else some ((n : Rat) / (d : Rat))
    | _, _ => none
  | [n] => n.toInt?.map fun n => (n : Rat)
  | _ => none

def jRat? (j : Json) : Option Rat :=
  match j with
  | .str s => parseRat s
  | _ => (jInt? j).map fun i => (i : Rat)

def rats? (j : Json) : Option (List Rat) :=
  match j with
  | .arr a => a.toList.mapM jRat?
  | _ => none

def optRats? (j : Json) : Option (Option (List Rat)) :=
  if isNull j then some none else (rats? j).map some

def dim? (j : Json) : Option DimDesc :=
  match jArr j |>.toList with
  | [Json.str "sampled", off, si] => do
    let off ← if isNull off then some (0 : Rat) else jRat? off
    let si ← jRat? si
    pure (.sampled off si)
  | [Json.str "range", ticks] => (rats? ticks).map DimDesc.range
  | [Json.str "set"] => some .set
  | _ => none

def dims? (j : Json) : Option (List DimDesc) :=
  match j with
  | .arr a => a.toList.mapM dim?
  | _ => none

def handle (j : Json) : Json :=
  match jArr j |>.toList with
  | [Json.str "indices", s, len] =>
    match slice? s, jInt? len with
    | some s, some len =>
      if len < 0 then bad "negative length" else
      match s.indices len.toNat with
      | .ok (a, b, k) => ok (jInts [a, b, k])
      | .error e => err e
    | _, _ => bad "indices: malformed"
  | [Json.str "range", lo, hi, step] =>
    match jInt? lo, jInt? hi, jInt? step with
    | some lo, some hi, some step => ok (jInts (pyRange lo hi step))
    | _, _, _ => bad "range: malformed"
  | [Json.str "np", shape, ix] =>
    match nats? shape, ix? ix with
    | some shape, some ix => outSel shape false (npSelect shape ix)
    | _, _ => bad "np: malformed"
  | [Json.str "da_read", shape, ix] =>
    match nats? shape, ix? ix with
    | some shape, some ix => outSel shape true (daRead shape ix)
    | _, _ => bad "da_read: malformed"
  | [Json.str "da_write", shape, ix] =>
    match nats? shape, ix? ix with
    | some shape, some ix => outSel shape false (daWrite shape ix)
    | _, _ => bad "da_write: malformed"
  | [Json.str "mkview", shape, sl] =>
    match nats? shape, slices? sl with
    | some shape, some sl => ok (viewJson (mkView shape sl))
    | _, _ => bad "mkview: malformed"
  | [Json.str "view", shape, pos, ext] =>
    match nats? shape, ints? pos, optInts? ext with
    | some shape, some pos, some ext =>
      match getSlice shape pos ext with
      | .ok v => ok (viewJson v)
      | .error e => err e
    | _, _, _ => bad "view: malformed"
  | [Json.str "view_read", shape, pos, ext, ix] =>
    match nats? shape, ints? pos, optInts? ext, optIx? ix with
    | some shape, some pos, some ext, some ix =>
      match getSlice shape pos ext with
      | .ok v => outRead shape (viewRead v ix)
      | .error e => err e
    | _, _, _, _ => bad "view_read: malformed"
  | [Json.str "view_write", shape, pos, ext, ix] =>
    match nats? shape, ints? pos, optInts? ext, optIx? ix with
    | some shape, some pos, some ext, some ix =>
      match getSlice shape pos ext with
      | .ok v => outSel shape false (viewWrite v ix)
      | .error e => err e
    | _, _, _, _ => bad "view_write: malformed"
  | [Json.str "view_data", shape, dims, pos, ext] =>
    match nats? shape, dims? dims, rats? pos, optRats? ext with
    | some shape, some dims, some pos, some ext =>
      match getSliceData shape dims pos ext with
      | .ok v => ok (viewJson v)
      | .error e => err e
    | _, _, _, _ => bad "view_data: malformed"
  | [Json.str "view_data_read", shape, dims, pos, ext, ix] =>
    match nats? shape, dims? dims, rats? pos, optRats? ext, optIx? ix with
    | some shape, some dims, some pos, some ext, some ix =>
      match getSliceData shape dims pos ext with
      | .ok v => outRead shape (viewRead v ix)
      | .error e => err e
    | _, _, _, _, _ => bad "view_data_read: malformed"
  | _ => bad "C06: unknown op"

def main : IO Unit := pureLoop handle

end Driver.C06
