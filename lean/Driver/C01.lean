import Driver.Util
open Lean

namespace Driver.C01

/-- stub: replaced when the model of C01 is built -/
def main : IO Unit := pureLoop fun _ => bad "C01: model driver not built yet"

end Driver.C01
