import Driver.Util
import NixModel.Pure.NdRun
open Lean Nix Nix.Nd Nix.Gen.Compr Nix.NdGen Nix.NdSpell

/-!
Driver for C01.  One JSON object per line:
  {"fc": <file compression>, "bc": <block compression>, "refetched": bool, "ac": <array compression>,
   "create": {"dtype": <name>|null, "shape": [n..]|null, "data": ARR|null, "dspell": <spelling>},
   "steps": [["write", ARR] | ["assign", [IX..], ARR] | ["append", ARR, axis] | ["resize", [int..]]
             | ["reopen"] | ["read", [IX..]] ...]}
  ARR = {"dt": <name>, "shape": [n..], "flat": [elements in C order]}     IX = int | [start|null, stop|null, step|null]
  An index argument is [IX..] (a tuple) or {"f": "t"|"b"|"n", "i": [IX | "..." ..]}: a tuple, a bare item, None;
  "..." is Ellipsis.
Elements: integers as numbers, floats as the number of their IEEE bit pattern, booleans, strings.
The data of a step keeps its own element type ("dt"); the model converts it (NdConv) or refuses the step.
Every operation is executed through the definitions compiled from the Python source (Generated/DataSetShape.lean):
dsAppend, dsSetItem, dsWriteDirect, dsGetItem, dsLen, dsSize, dsSetExtent, createRules.
An ARR with "sp": "list" | "tuple" | "range" in a write / assign step is a Python sequence: h5py reads it with the
array's element type (NumPy's cast, Pure/NdSeq.lean: stepSeqGen); elsewhere the source is the array NumPy reads.
"dspell" (optional) is the dtype argument as the user spells it - "py:float", "np:double", "nix:Float", "dt:>i4"
(np.dtype('>i4')), "s:f8" ('f8'); when present the model decides what it means (Pure/NdSpell.lean, createSpelled)
and "dtype" is not looked at.  Other spelling keys of the harness ("sp", "shspell") do not change the meaning.
Output: {"ok": {"create": "ok"|<Err>, "compressed": bool, "steps": [<observation after each step>]}}.
A special line ["resolve", fc, bc, ac, refetched] answers {"ok": bool}.
["reported", <dtype name>, "data_type" | "dtype"] answers {"ok": <dtype name>}: the element type of an array created
with `dtype=` what an array of the given element type reports through that getter (compiled getters + createWith).
-/
namespace Driver.C01

def dtypeOfName : String → Option DType
  | "uint8" => some .uint8 | "uint16" => some .uint16 | "uint32" => some .uint32 | "uint64" => some .uint64
  | "int8" => some .int8 | "int16" => some .int16 | "int32" => some .int32 | "int64" => some .int64
  | "float32" => some .float32 | "float64" => some .float64 | "bool" => some .bool | "string" => some .string
  | _ => none

def dtypeName : DType → String
  | .uint8 => "uint8" | .uint16 => "uint16" | .uint32 => "uint32" | .uint64 => "uint64"
  | .int8 => "int8" | .int16 => "int16" | .int32 => "int32" | .int64 => "int64"
  | .float32 => "float32" | .float64 => "float64" | .bool => "bool" | .string => "string"

def comprOfName : String → Option Compression
  | "No" => some .no | "DeflateNormal" => some .deflateNormal | "Auto" => some .auto
  | _ => none

def elemOfJson (dt : DType) (j : Json) : Option Elem :=
  match dt, j with
  | .bool, .bool b => some (.bool b)
  | .string, .str s => some (.text s)
  | .float32, j => (jInt? j).map fun i => .f32 i.toNat
  | .float64, j => (jInt? j).map fun i => .f64 i.toNat
  | .bool, _ => none
  | .string, _ => none
  | _, j => (jInt? j).map fun i => .int i

def elemToJson : Elem → Json
  | .int v => Json.num (JsonNumber.fromInt v)
  | .f32 b => Json.num (JsonNumber.fromNat b)
  | .f64 b => Json.num (JsonNumber.fromNat b)
  | .bool b => Json.bool b
  | .text s => Json.str s

def natList? (j : Json) : Option (List Nat) :=
  match j with
  | .arr a => a.toList.mapM fun x => match jInt? x with
    | some i => if i < 0 then none else some i.toNat
    | none => none
  | _ => none

def intList? (j : Json) : Option (List Int) :=
  match j with
  | .arr a => a.toList.mapM jInt?
  | _ => none

/-- row-major offset of an in-bounds multi-index -/
def ravel : List Nat → List Nat → Nat
  | i :: is, _ :: ns => i * Nix.Nd.sizeOf ns + ravel is ns
  | _, _ => 0

def arrOfJson (j : Json) : Option (DType × NdArray Elem) := do
  let dtn ← (j.getObjValAs? String "dt").toOption
  let dt ← dtypeOfName dtn
  let sh ← natList? (j.getObjValD "shape")
  let flatJ := jArr (j.getObjValD "flat")
  let flat ← flatJ.toList.mapM (elemOfJson dt)
  let arr := flat.toArray
  if arr.size ≠ Nix.Nd.sizeOf sh then none
  else some (dt, ⟨sh, fun idx => arr.getD (ravel idx sh) dt.fill⟩)

def optInt? (j : Json) : Option (Option Int) :=
  if isNull j then some none else (jInt? j).map some

def ixOfJson (j : Json) : Option Ix :=
  match j with
  | .arr a =>
    match a.toList with
    | [s, e, st] => do
      let s ← optInt? s
      let e ← optInt? e
      let st ← optInt? st
      some (Ix.slice s e st)
    | _ => none
  | j => (jInt? j).map Ix.int

def ixeOfJson (j : Json) : Option IxE :=
  match j with
  | .str "..." => some .ellipsis
  | j => (ixOfJson j).map .ix

def indexOfJson (j : Json) : Option IndexArg :=
  match j with
  | .arr a => (a.toList.mapM ixeOfJson).map .tuple
  | j =>
    match jStr (j.getObjValD "f"), (jArr (j.getObjValD "i")).toList.mapM ixeOfJson with
    | "n", some _ => some .none
    | "b", some [i] => some (.one i)
    | "t", some l => some (.tuple l)
    | _, _ => none

/-- a type string split into its byte-order character and the rest -/
def splitOrder (s : String) : Option Char × String :=
  match s.toList with
  | c :: rest => if c = '<' ∨ c = '>' ∨ c = '=' ∨ c = '|' then (some c, String.ofList rest) else (none, s)
  | [] => (none, s)

def spellingOfKey (key : String) : Option Spelling :=
  match key.splitOn ":" with
  | cls :: rest =>
    let name := ":".intercalate rest
    match cls with
    | "py" =>
      match name with
      | "bool" => some (.py .bool) | "int" => some (.py .int) | "float" => some (.py .float)
      | "str" => some (.py .str) | _ => none
    | "np" => some (.npType name)
    | "nix" => some (.nix name)
    | "dt" => let (o, b) := splitOrder name; some (.dtypeObj o b)
    | "s" => let (o, b) := splitOrder name; some (.typeStr o b)
    | _ => none
  | [] => none

inductive Cmd where
  /-- `seq`: the source of a write / assignment is a Python sequence (list, tuple, range, scalar), which h5py
  reads with the array's element type (`stepSeqGen`) -/
  | step (s : TStep) (seq : Bool)
  | read (ix : IndexArg)

/-- is the array literal spelled as a Python sequence? -/
def isSeq (a : Json) : Bool :=
  let sp := jStr (a.getObjValD "sp")
  sp == "list" || sp == "tuple" || sp == "range"

def arrOf (j : Json) : Option Arr := (arrOfJson j).map fun (dt, a) => ⟨dt, a⟩

def cmdOfJson (j : Json) : Option Cmd :=
  match (jArr j).toList with
  | [Json.str "write", a] => (arrOf a).map fun d => .step (.write d) (isSeq a)
  | [Json.str "assign", ix, a] => do
    let ix ← indexOfJson ix
    let d ← arrOf a
    some (.step (.assign ix d) (isSeq a))
  | [Json.str "append", a, ax] => do
    let d ← arrOf a
    let ax ← jInt? ax
    some (.step (.append d ax) false)
  | [Json.str "resize", e] => (intList? e).map fun e => .step (.resize e) false
  | [Json.str "reopen"] => some (.step .reopen false)
  | [Json.str "read", ix] => (indexOfJson ix).map .read
  | _ => none

def natsJson (l : List Nat) : Json := Json.arr (l.map fun n => Json.num (JsonNumber.fromNat n)).toArray

def arrJson (A : NdArray Elem) : List (String × Json) :=
  [("shape", natsJson A.shape), ("flat", Json.arr (A.toList.map elemToJson).toArray)]

def observe (r : String) (A : DArr) : Json :=
  let whole : List (String × Json) := match Nix.Gen.DataSet.dsGetItem A fullSlice with
    | .ok w => arrJson w
    | .error e => [("observe_error", Json.str e.toString)]
  Json.mkObj ([("r", Json.str r), ("dtype", Json.str (dtypeName A.dtype)),
    ("extent", Json.arr ((Nix.Gen.DataSet.dsShapeOf A).map fun n => Json.num (JsonNumber.fromInt n)).toArray),
    ("len", match Nix.Gen.DataSet.dsLen A with
      | .ok n => Json.num (JsonNumber.fromInt n)
      | .error e => Json.str e.toString),
    ("size", Json.num (JsonNumber.fromInt (Nix.Gen.DataSet.dsSize A))),
    ("compressed", Json.bool A.compressed)] ++ whole)

def runCmds (A : DArr) : List Cmd → List Json
  | [] => []
  | .read ix :: rest =>
    (match Nix.Gen.DataSet.dsGetItem A ix with
      | .ok R => Json.mkObj ([("r", Json.str "ok")] ++ arrJson R)
      | .error e => Json.mkObj [("r", Json.str e.toString)]) :: runCmds A rest
  | .step s seq :: rest =>
    match (if seq then stepSeqGen A s else some (stepGen A s)) with
    | some (B, none) => observe "ok" B :: runCmds B rest
    | some (B, some e) => observe e.toString B :: runCmds B rest
    | none => observe "outside-model" A :: runCmds A rest

def handleCase (j : Json) : Option Json := do
  let fc ← comprOfName (jStr (j.getObjValD "fc"))
  let bc ← comprOfName (jStr (j.getObjValD "bc"))
  let ac ← comprOfName (jStr (j.getObjValD "ac"))
  let refetched := jBool (j.getObjValD "refetched")
  let c := j.getObjValD "create"
  let dtJ := c.getObjValD "dtype"
  let spJ := c.getObjValD "dspell"
  let spelled := !isNull spJ && !isNull dtJ
  let dtype ← if isNull dtJ || spelled then some none else (dtypeOfName (jStr dtJ)).map some
  let shJ := c.getObjValD "shape"
  let shape ← if isNull shJ then some none else (natList? shJ).map some
  let dJ := c.getObjValD "data"
  let data ← if isNull dJ then some none else (arrOf dJ).map some
  let cmds ← (jArr (j.getObjValD "steps")).toList.mapM cmdOfJson
  let compr := resolveCompression fc bc ac refetched
  let created ← if spelled then (spellingOfKey (jStr spJ)).bind fun sp => createSpelled sp shape data compr
                 else some (createGen dtype shape data compr)
  match created with
  | .error e => some (ok (Json.mkObj [("create", Json.str e.toString)]))
  | .ok A =>
    some (ok (Json.mkObj [("create", Json.str "ok"), ("first", observe "ok" A),
                           ("steps", Json.arr (runCmds A cmds).toArray)]))

def handle (j : Json) : Json :=
  match j with
  | .arr a =>
    match a.toList with
    | [Json.str "reported", dt, which] =>
      match dtypeOfName (jStr dt) with
      | none => bad "C01: bad dtype name"
      | some t =>
        let stored := Nix.NdSpell.storedDtype t
        let v := if jStr which == "dtype" then Nix.Gen.DataSetDType.daDtype stored
                 else Nix.Gen.DataSetDType.dsDataType stored
        match createWith v (some [1]) none false with
        | some (.ok B) => ok (Json.str (dtypeName B.dtype))
        | some (.error e) => ok (Json.str e.toString)
        | none => bad "C01: outside the model"
    | [Json.str "resolve", fc, bc, ac, r] =>
      match comprOfName (jStr fc), comprOfName (jStr bc), comprOfName (jStr ac) with
      | some f, some b, some c => ok (Json.bool (resolveCompression f b c (jBool r)))
      | _, _, _ => bad "C01: bad compression name"
    | _ => bad "C01: unknown op"
  | j =>
    match handleCase j with
    | some r => r
    | none => bad "C01: malformed case"

def main : IO Unit := pureLoop handle

end Driver.C01
