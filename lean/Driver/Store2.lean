import Driver.Store
import NixModel.Store.Copy
open Lean Nix.Store

/-! Two-file driver: the structural ops of `Driver.Store` on a current file, plus copies
(within a file or from the other one). Used by C20 and C02. -/
namespace Driver.Store2

structure St where
  files : Array Graph := #[init, { init with nextId := 1000000 }]   -- disjoint id supplies: real uuids are global
  cur : Nat := 0
  deriving Inhabited

def St.g (s : St) : Graph := s.files[s.cur]?.getD init
def St.setG (s : St) (g : Graph) : St := { s with files := s.files.setIfInBounds s.cur g }

def applyS (s : St) (r : Except Nix.Err Graph) : St × Json :=
  match r with
  | .ok g' => (s.setG g', ok Json.null)
  | .error e => (s, err e)

def step (s : St) (j : Json) : St × Json :=
  match (jArr j).toList with
  | [.str "reset"] => ({}, ok Json.null)
  | [.str "use", n] =>
    match jInt? n with
    | some i => if i.toNat < s.files.size then ({ s with cur := i.toNat }, ok Json.null) else (s, bad "file index")
    | none => (s, bad "file index")
  | [.str "copy_block", sf, sp, .str name, .bool keep] =>
    match jInt? sf with
    | some sfi =>
      let src := s.files[sfi.toNat]?.getD {}
      match Driver.Store.resolveKey src sp with
      | some k => applyS s (copyBlock src s.g k name keep)
      | none => (s, bad "source path")
    | none => (s, bad "source file")
  | [.str "copy_into", dp, .str what, sf, sp, .str name, .bool keep] =>
    match jInt? sf, Driver.Store.parsePath dp with
    | some sfi, some dpath =>
      let src := s.files[sfi.toNat]?.getD {}
      match Driver.Store.resolveKey src sp with
      | some k => applyS s (copyIntoBlock src s.g dpath what k name keep)
      | none => (s, bad "source path")
    | _, _ => (s, bad "args")
  | [.str "copy_section", dp, sf, sp, .bool children, .bool keep, .str name] =>
    match jInt? sf with
    | some sfi =>
      let src := s.files[sfi.toNat]?.getD {}
      let dest : Option (Option Path) :=
        if isNull dp then some none else (Driver.Store.parsePath dp).map some
      match dest, Driver.Store.resolveKey src sp with
      | some d, some k => applyS s (copySection src s.g d k children keep name)
      | _, _ => (s, bad "paths")
    | none => (s, bad "source file")
  | [.str "copy_property", dp, sf, sp, .str name, .bool keep] =>
    match jInt? sf with
    | some sfi =>
      let src := s.files[sfi.toNat]?.getD {}
      match Driver.Store.resolveKey s.g dp, Driver.Store.resolveKey src sp with
      | some d, some k => applyS s (copyProperty src s.g d k name keep)
      | _, _ => (s, bad "paths")
    | none => (s, bad "source file")
  | _ =>
    let (g', out) := Driver.Store.step s.g j
    (s.setG g', out)

def main : IO Unit := loop ({} : St) step

end Driver.Store2
