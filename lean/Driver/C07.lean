import Driver.Util
import NixModel.Pure.Dim
import NixModel.Pure.DimSession
open Lean Nix.Dim

/-!
Line protocol of the C07 model (one JSON array per line). Rationals travel as `"num/den"` strings,
integers as JSON integers, a missing value as `null`.

  ["sampled_index_of", off|null, si, pos, mode]            → {"ok": int} | {"err": …}
  ["sampled_range_indices", off|null, si, s, e, smode]     → {"ok": [a, b] | null} | {"err": …}
  ["sampled_position_at", off|null, si, index]             → {"ok": "n/d"}
  ["sampled_axis", off|null, si, count, start|null, startpos|null] → {"ok": ["n/d", …]} | {"err": …}
  ["range_index_of", [tick…], pos, mode]                   ["range_range_indices", [tick…], s, e, smode]
  ["range_tick_at", [tick…], index]                        ["range_axis", [tick…], count, start]
  ["set_index_of", n, pos, mode]                           ["set_range_indices", n, s, e, smode]
  ["to_index_mode", smode]                                 → {"ok": "less" | "leq" | "geq" | null}

  ["session", [op, …]]                                     → {"ok": [answer, …]}   (a whole history; `NixModel/Pure/DimSession.lean`)
     op = ["append_sampled", si] | ["append_range"] | ["append_set"] | ["new_src", src] | ["write_src", k, src]
        | ["open", d] | ["set_offset", h, v|null] | ["set_interval", h, v] | ["set_ticks", h, [tick…]]
        | ["set_labels", h, n] | ["link_array", h, k, [i…]] | ["link_frame", h, k, col] | ["unlink", h]
        | ["set_unit", h, u] | ["set_label", h, l]
        | ["index_of", h, pos, mode] | ["range_indices", h, s, e, smode] | ["position_at", h, i]
        | ["axis", h, count, start|null, startpos|null]
     src = ["vec", [x…]] | ["mat", [[x…]…], ncols] | ["frame", [[x…]…], ncols]
     answer = {"ok": …} as above ({"ok": "done"} for a change) | {"err": …} | {"bad": "na"}

`mode` is an `IndexMode` member name (aliases accepted; anything else is "not a member"), `smode`
is "Exclusive" or "Inclusive" (anything else: `ValueError`, as the code's first test).
-/
namespace Driver.C07

def parseRat (s : String) : Option Rat :=
  match s.splitOn "/" with
  | [n, d] =>
    match n.toInt?, d.toNat? with
    | some n, some d => if d = 0 then none else some ((n : Rat) / (d : Rat))
    | _, _ => none
  | [n] => n.toInt?.map fun n => (n : Rat)
  | _ => none

def jRat? (j : Json) : Option Rat :=
  match j with
  | .str s => parseRat s
  | _ => (jInt? j).map fun i => (i : Rat)

/-- offset attribute: `self.offset if self.offset else 0` -/
def jOff? (j : Json) : Option Rat := if isNull j then some 0 else jRat? j

def jRats? (j : Json) : Option (List Rat) :=
  match j with
  | .arr a => a.toList.mapM jRat?
  | _ => none

def jOptInt? (j : Json) : Option (Option Int) := if isNull j then some none else (jInt? j).map some
def jOptRat? (j : Json) : Option (Option Rat) := if isNull j then some none else (jRat? j).map some

def jMode (j : Json) : IndexMode := IndexMode.ofName (jStr j)

def jSlice? (j : Json) : Option SliceMode :=
  match j with
  | .str "Exclusive" => some .exclusive
  | .str "Inclusive" => some .inclusive
  | _ => none

def outInt (r : Except Nix.Err Int) : Json :=
  match r with
  | .ok i => ok (Json.num (JsonNumber.fromInt i))
  | .error e => err e

def outPair (r : Except Nix.Err (Option (Int × Int))) : Json :=
  match r with
  | .ok none => ok Json.null
  | .ok (some (a, b)) => ok (Json.arr #[Json.num (JsonNumber.fromInt a), Json.num (JsonNumber.fromInt b)])
  | .error e => err e

def outRat (r : Except Nix.Err Rat) : Json :=
  match r with
  | .ok x => ok (Json.str (ratStr x))
  | .error e => err e

def outRats (r : Except Nix.Err (List Rat)) : Json :=
  match r with
  | .ok l => ok (Json.arr (l.map fun x => Json.str (ratStr x)).toArray)
  | .error e => err e

open Nix.DimSession in
def jSrc? (j : Json) : Option Source :=
  match jArr j |>.toList with
  | [Json.str "vec", v] => (jRats? v).map Source.vec
  | [Json.str "mat", rows, nc] =>
    match (jArr rows).toList.mapM jRats?, jInt? nc with
    | some rows, some nc => if 0 ≤ nc then some (Source.mat rows nc.toNat) else none
    | _, _ => none
  | [Json.str "frame", rows, nc] =>
    match (jArr rows).toList.mapM jRats?, jInt? nc with
    | some rows, some nc => if 0 ≤ nc then some (Source.frame rows nc.toNat) else none
    | _, _ => none
  | _ => none

def jNat? (j : Json) : Option Nat :=
  match jInt? j with
  | some i => if 0 ≤ i then some i.toNat else none
  | none => none

open Nix.DimSession in
def jOp? (j : Json) : Option Op :=
  match jArr j |>.toList with
  | [Json.str "append_sampled", si] => (jRat? si).map Op.appendSampled
  | [Json.str "append_range"] => some .appendRange
  | [Json.str "append_set"] => some .appendSet
  | [Json.str "new_src", s] => (jSrc? s).map Op.newSrc
  | [Json.str "write_src", k, s] =>
    match jNat? k, jSrc? s with
    | some k, some s => some (.writeSrc k s)
    | _, _ => none
  | [Json.str "open", d] => (jNat? d).map Op.openH
  | [Json.str "set_offset", h, v] =>
    match jNat? h, jOptRat? v with
    | some h, some v => some (.setOffset h v)
    | _, _ => none
  | [Json.str "set_interval", h, v] =>
    match jNat? h, jRat? v with
    | some h, some v => some (.setInterval h v)
    | _, _ => none
  | [Json.str "set_ticks", h, t] =>
    match jNat? h, jRats? t with
    | some h, some t => some (.setTicks h t)
    | _, _ => none
  | [Json.str "set_labels", h, n] =>
    match jNat? h, jNat? n with
    | some h, some n => some (.setLabels h n)
    | _, _ => none
  | [Json.str "link_array", h, k, iv] =>
    match jNat? h, jNat? k, (jArr iv).toList.mapM jInt? with
    | some h, some k, some iv => some (.linkArray h k iv)
    | _, _, _ => none
  | [Json.str "link_frame", h, k, c] =>
    match jNat? h, jNat? k, jInt? c with
    | some h, some k, some c => some (.linkFrame h k c)
    | _, _, _ => none
  | [Json.str "unlink", h] => (jNat? h).map Op.unlink
  | [Json.str "set_unit", h, u] => (jNat? h).map fun h => Op.setUnit h (jStr u)
  | [Json.str "set_label", h, l] => (jNat? h).map fun h => Op.setLabel h (jStr l)
  | [Json.str "index_of", h, pos, mode] =>
    match jNat? h, jRat? pos with
    | some h, some pos => some (.query h (.indexOf pos (jMode mode)))
    | _, _ => none
  | [Json.str "range_indices", h, s, e, sm] =>
    match jNat? h, jRat? s, jRat? e, jSlice? sm with
    | some h, some s, some e, some sm => some (.query h (.rangeIndices s e sm))
    | _, _, _, _ => none
  | [Json.str "position_at", h, i] =>
    match jNat? h, jInt? i with
    | some h, some i => some (.query h (.positionAt i))
    | _, _ => none
  | [Json.str "axis", h, count, start, sp] =>
    match jNat? h, jInt? count, jOptInt? start, jOptRat? sp with
    | some h, some count, some start, some sp => some (.query h (.axis count start sp))
    | _, _, _, _ => none
  | _ => none

open Nix.DimSession in
def outAns : Ans → Json
  | .idx r => outInt r
  | .pair r => outPair r
  | .pos r => outRat r
  | .axis r => outRats r
  | .unit => ok (Json.str "done")
  | .fail e => err e
  | .na => bad "na"

def handle (j : Json) : Json :=
  match jArr j |>.toList with
  | [Json.str "session", ops] =>
    match (jArr ops).toList.mapM jOp? with
    | some ops => ok (Json.arr ((Nix.DimSession.run {} ops).2.map outAns).toArray)
    | none => bad "C07: session: malformed operation"
  | [Json.str "sampled_index_of", off, si, pos, mode] =>
    match jOff? off, jRat? si, jRat? pos with
    | some off, some si, some pos => outInt (Nix.DimSession.sampledIndexOfZ off si pos (jMode mode))
    | _, _, _ => bad "C07: sampled_index_of arguments"
  | [Json.str "sampled_range_indices", off, si, s, e, sm] =>
    match jOff? off, jRat? si, jRat? s, jRat? e with
    | some off, some si, some s, some e =>
      match jSlice? sm with
      | some sm => outPair (Nix.DimSession.sampledRangeIndicesZ off si s e sm)
      | none => err .valueError
    | _, _, _, _ => bad "C07: sampled_range_indices arguments"
  | [Json.str "sampled_position_at", off, si, idx] =>
    match jOff? off, jRat? si, jInt? idx with
    | some off, some si, some idx => outRat (.ok (sampledPositionAt off si idx))
    | _, _, _ => bad "C07: sampled_position_at arguments"
  | [Json.str "sampled_axis", off, si, count, start, sp] =>
    match jOff? off, jRat? si, jInt? count, jOptInt? start, jOptRat? sp with
    | some off, some si, some count, some start, some sp => outRats (sampledAxis off si count start sp)
    | _, _, _, _, _ => bad "C07: sampled_axis arguments"
  | [Json.str "range_index_of", ticks, pos, mode] =>
    match jRats? ticks, jRat? pos with
    | some ticks, some pos => outInt (rangeIndexOf ticks pos (jMode mode))
    | _, _ => bad "C07: range_index_of arguments"
  | [Json.str "range_range_indices", ticks, s, e, sm] =>
    match jRats? ticks, jRat? s, jRat? e with
    | some ticks, some s, some e =>
      match jSlice? sm with
      | some sm => outPair (rangeRangeIndices ticks s e sm)
      | none => err .valueError
    | _, _, _ => bad "C07: range_range_indices arguments"
  | [Json.str "range_tick_at", ticks, idx] =>
    match jRats? ticks, jInt? idx with
    | some ticks, some idx => outRat (rangeTickAt ticks idx)
    | _, _ => bad "C07: range_tick_at arguments"
  | [Json.str "range_axis", ticks, count, start] =>
    match jRats? ticks, jInt? count, jInt? start with
    | some ticks, some count, some start => outRats (rangeAxis ticks count start)
    | _, _, _ => bad "C07: range_axis arguments"
  | [Json.str "set_index_of", n, pos, mode] =>
    match jInt? n, jRat? pos with
    | some n, some pos => if n < 0 then bad "C07: negative label count" else outInt (setIndexOf n.toNat pos (jMode mode))
    | _, _ => bad "C07: set_index_of arguments"
  | [Json.str "set_range_indices", n, s, e, sm] =>
    match jInt? n, jRat? s, jRat? e with
    | some n, some s, some e =>
      if n < 0 then bad "C07: negative label count" else
      match jSlice? sm with
      | some sm => outPair (setRangeIndices n.toNat s e sm)
      | none => err .valueError
    | _, _, _ => bad "C07: set_range_indices arguments"
  | [Json.str "to_index_mode", sm] =>
    match jSlice? sm with
    | some sm =>
      match sliceToIndexMode sm with
      | some .less => ok (Json.str "less")
      | some .leq => ok (Json.str "leq")
      | some .geq => ok (Json.str "geq")
      | some .other => ok (Json.str "other")
      | none => ok Json.null
    | none => bad "C07: to_index_mode argument"
  | _ => bad "C07: unknown op"

def main : IO Unit := pureLoop handle

end Driver.C07
