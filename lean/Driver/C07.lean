import Driver.Util
open Lean

namespace Driver.C07

/-- stub: replaced when the model of C07 is built -/
def main : IO Unit := pureLoop fun _ => bad "C07: model driver not built yet"

end Driver.C07
