import Driver.Util
import NixModel.Pure.Dim
open Lean Nix.Dim

/-!
Line protocol of the C07 model (one JSON array per line). Rationals travel as `"num/den"` strings,
integers as JSON integers, a missing value as `null`.

  ["sampled_index_of", off|null, si, pos, mode]            → {"ok": int} | {"err": …}
  ["sampled_range_indices", off|null, si, s, e, smode]     → {"ok": [a, b] | null} | {"err": …}
  ["sampled_position_at", off|null, si, index]             → {"ok": "n/d"}
  ["sampled_axis", off|null, si, count, start|null, startpos|null] → {"ok": ["n/d", …]} | {"err": …}
  ["range_index_of", [tick…], pos, mode]                   ["range_range_indices", [tick…], s, e, smode]
  ["range_tick_at", [tick…], index]                        ["range_axis", [tick…], count, start]
  ["set_index_of", n, pos, mode]                           ["set_range_indices", n, s, e, smode]
  ["to_index_mode", smode]                                 → {"ok": "less" | "leq" | "geq" | null}

`mode` is an `IndexMode` member name (aliases accepted; anything else is "not a member"), `smode`
is "Exclusive" or "Inclusive" (anything else: `ValueError`, as the code's first test).
-/
namespace Driver.C07

def parseRat (s : String) : Option Rat :=
  match s.splitOn "/" with
  | [n, d] =>
    match n.toInt?, d.toNat? with
    | some n, some d => if d = 0 then none else some ((n : Rat) / (d : Rat))
    | _, _ => none
  | [n] => n.toInt?.map fun n => (n : Rat)
  | _ => none

def jRat? (j : Json) : Option Rat :=
  match j with
  | .str s => parseRat s
  | _ => (jInt? j).map fun i => (i : Rat)

/-- offset attribute: `self.offset if self.offset else 0` -/
def jOff? (j : Json) : Option Rat := if isNull j then some 0 else jRat? j

def jRats? (j : Json) : Option (List Rat) :=
  match j with
  | .arr a => a.toList.mapM jRat?
  | _ => none

def jOptInt? (j : Json) : Option (Option Int) := if isNull j then some none else (jInt? j).map some
def jOptRat? (j : Json) : Option (Option Rat) := if isNull j then some none else (jRat? j).map some

def jMode (j : Json) : IndexMode := IndexMode.ofName (jStr j)

def jSlice? (j : Json) : Option SliceMode :=
  match j with
  | .str "Exclusive" => some .exclusive
  | .str "Inclusive" => some .inclusive
  | _ => none

def outInt (r : Except Nix.Err Int) : Json :=
  match r with
  | .ok i => ok (Json.num (JsonNumber.fromInt i))
  | .error e => err e

def outPair (r : Except Nix.Err (Option (Int × Int))) : Json :=
  match r with
  | .ok none => ok Json.null
  | .ok (some (a, b)) => ok (Json.arr #[Json.num (JsonNumber.fromInt a), Json.num (JsonNumber.fromInt b)])
  | .error e => err e

def outRat (r : Except Nix.Err Rat) : Json :=
  match r with
  | .ok x => ok (Json.str (ratStr x))
  | .error e => err e

def outRats (r : Except Nix.Err (List Rat)) : Json :=
  match r with
  | .ok l => ok (Json.arr (l.map fun x => Json.str (ratStr x)).toArray)
  | .error e => err e

def handle (j : Json) : Json :=
  match jArr j |>.toList with
  | [Json.str "sampled_index_of", off, si, pos, mode] =>
    match jOff? off, jRat? si, jRat? pos with
    | some off, some si, some pos => outInt (sampledIndexOf off si pos (jMode mode))
    | _, _, _ => bad "C07: sampled_index_of arguments"
  | [Json.str "sampled_range_indices", off, si, s, e, sm] =>
    match jOff? off, jRat? si, jRat? s, jRat? e with
    | some off, some si, some s, some e =>
      match jSlice? sm with
      | some sm => outPair (sampledRangeIndices off si s e sm)
      | none => err .valueError
    | _, _, _, _ => bad "C07: sampled_range_indices arguments"
  | [Json.str "sampled_position_at", off, si, idx] =>
    match jOff? off, jRat? si, jInt? idx with
    | some off, some si, some idx => outRat (.ok (sampledPositionAt off si idx))
    | _, _, _ => bad "C07: sampled_position_at arguments"
  | [Json.str "sampled_axis", off, si, count, start, sp] =>
    match jOff? off, jRat? si, jInt? count, jOptInt? start, jOptRat? sp with
    | some off, some si, some count, some start, some sp => outRats (sampledAxis off si count start sp)
    | _, _, _, _, _ => bad "C07: sampled_axis arguments"
  | [Json.str "range_index_of", ticks, pos, mode] =>
    match jRats? ticks, jRat? pos with
    | some ticks, some pos => outInt (rangeIndexOf ticks pos (jMode mode))
    | _, _ => bad "C07: range_index_of arguments"
  | [Json.str "range_range_indices", ticks, s, e, sm] =>
    match jRats? ticks, jRat? s, jRat? e with
    | some ticks, some s, some e =>
      match jSlice? sm with
      | some sm => outPair (rangeRangeIndices ticks s e sm)
      | none => err .valueError
    | _, _, _ => bad "C07: range_range_indices arguments"
  | [Json.str "range_tick_at", ticks, idx] =>
    match jRats? ticks, jInt? idx with
    | some ticks, some idx => outRat (rangeTickAt ticks idx)
    | _, _ => bad "C07: range_tick_at arguments"
  | [Json.str "range_axis", ticks, count, start] =>
    match jRats? ticks, jInt? count, jInt? start with
    | some ticks, some count, some start => outRats (rangeAxis ticks count start)
    | _, _, _ => bad "C07: range_axis arguments"
  | [Json.str "set_index_of", n, pos, mode] =>
    match jInt? n, jRat? pos with
    | some n, some pos => if n < 0 then bad "C07: negative label count" else outInt (setIndexOf n.toNat pos (jMode mode))
    | _, _ => bad "C07: set_index_of arguments"
  | [Json.str "set_range_indices", n, s, e, sm] =>
    match jInt? n, jRat? s, jRat? e with
    | some n, some s, some e =>
      if n < 0 then bad "C07: negative label count" else
      match jSlice? sm with
      | some sm => outPair (setRangeIndices n.toNat s e sm)
      | none => err .valueError
    | _, _, _ => bad "C07: set_range_indices arguments"
  | [Json.str "to_index_mode", sm] =>
    match jSlice? sm with
    | some sm =>
      match sliceToIndexMode sm with
      | some .less => ok (Json.str "less")
      | some .leq => ok (Json.str "leq")
      | some .geq => ok (Json.str "geq")
      | some .other => ok (Json.str "other")
      | none => ok Json.null
    | none => bad "C07: to_index_mode argument"
  | _ => bad "C07: unknown op"

def main : IO Unit := pureLoop handle

end Driver.C07
