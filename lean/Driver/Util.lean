import Lean.Data.Json
import NixModel.Basic
open Lean

namespace Driver

/-- read JSON lines from stdin, thread a state, write one JSON line per input line -/
partial def loop {σ : Type} (init : σ) (step : σ → Json → σ × Json) : IO Unit := do
  let stdin ← IO.getStdin
  let stdout ← IO.getStdout
  let rec go (s : σ) : IO Unit := do
    let line ← stdin.getLine
    if line.isEmpty then
      stdout.flush
      return ()
    match Json.parse line with
    | .error e =>
      stdout.putStrLn (Json.compress (Json.mkObj [("bad", Json.str e)]))
      go s
    | .ok j =>
      let (s', out) := step s j
      stdout.putStrLn out.compress
      go s'
  go init

def pureLoop (f : Json → Json) : IO Unit := loop () (fun _ j => ((), f j))

def ratStr (r : Rat) : String := s!"{r.num}/{r.den}"

def jStr (j : Json) : String := match j with | .str s => s | _ => ""
def jInt? (j : Json) : Option Int := match j.getInt? with | .ok i => some i | _ => none
def jArr (j : Json) : Array Json := match j with | .arr a => a | _ => #[]
def jBool (j : Json) : Bool := match j with | .bool b => b | _ => false
def isNull (j : Json) : Bool := match j with | .null => true | _ => false

def bad (msg : String) : Json := Json.mkObj [("bad", Json.str msg)]
def ok (v : Json) : Json := Json.mkObj [("ok", v)]
def err (e : Nix.Err) : Json := Json.mkObj [("err", Json.str e.toString)]

end Driver
